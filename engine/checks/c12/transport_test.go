//go:build verif

package c12

// Transport part of C12: the REAL http2.Transport (ClientConn over memnet in a
// bubble) is the subject, the harness is a scripted raw-frame server. Same
// ledger, with the roles swapped (the subject opens the streams).

import (
	"context"
	"errors"
	"fmt"
	"io"
	"net/http"
	"sort"
	"strings"
	"sync"
	"testing"
	"testing/synctest"
	"time"

	"github.com/wi1dcard/fingerproxy/pkg/http2"
	"verif/ev"
	"verif/memnet"
	"verif/ref/h2wire"
	"verif/ref/ledger"
)

type tconfig struct {
	Name       string
	SrvIWS     int64 // server's SETTINGS_INITIAL_WINDOW_SIZE (the transport's stream send windows)
	ConnRoom   int64 // transport's connection send window left after the prelude; -1 = 65535
	PerStream  int   // transport's receive buffer per stream (its SETTINGS_INITIAL_WINDOW_SIZE)
	PerConn    int   // transport's receive buffer per connection
	BodyN      []int64
	WUk        []int64
	SetV       []int64
	DataLen    []int64
	Pads       []int
	ReadN      []int64
	ClosedLen  []int64
	MaxStreams int
	Depth      int
	// SETTINGS_MAX_FRAME_SIZE: the server's value at the handshake (0 = default 16384) and the values it may switch to
	SrvMaxFrame int64
	MaxFrameV   []int64
	// Pause: the scripted server may stop reading from the connection (the Transport's writes then block after one
	// byte) and resume; while it does not read, nothing the Transport wrote is seen or judged
	Pause bool
	NoRet bool // request bodies never end (keeps the alphabet of the pause configurations small)
	// SrvMaxStreams: SETTINGS_MAX_CONCURRENT_STREAMS of the scripted server (0 = not sent). With fewer slots than
	// MaxStreams a request waits inside the Transport until a slot is free; its response HEADERS are sent when its
	// HEADERS appear on the wire.
	SrvMaxStreams int
}

// one request of the application that uses the transport
type treq struct {
	idx int
	id  uint32

	bodyCmd    chan int64    // >0: the request body yields n bytes; 0: EOF
	bodyClosed chan struct{} // closed by Request.Body.Close (the transport gives the body up): unblocks a pending Read
	closeOnce  sync.Once
	rcmd       chan hcmd // response body: rd n / cb

	mu        sync.Mutex
	wantBody  bool  // the transport is blocked in Request.Body.Read
	bodyGiven int64 // bytes the body reader has handed to the transport
	bodyEOF   bool
	gotRes    bool
	rtErr     string
	rbusy     bool
	readTotal int64
	readBad   string
	readEnd   string
	closed    bool
	done      bool // request goroutine finished

	pendingBody int64 // bytes accepted by a command but not yet handed over (Read buffer was shorter)
	cancel      context.CancelFunc

	repRead   int64
	repGiven  int64
	repDone   bool
	repClosed bool
	answered  bool // the scripted server has sent the response HEADERS
}

type ctlBody struct {
	r *treq
}

func (b ctlBody) Read(p []byte) (int, error) {
	r := b.r
	n := r.pendingBody
	if n == 0 {
		r.mu.Lock()
		r.wantBody = true
		r.mu.Unlock()
		var c int64
		var ok bool
		select {
		case c, ok = <-r.bodyCmd:
		case <-r.bodyClosed:
		}
		r.mu.Lock()
		r.wantBody = false
		r.mu.Unlock()
		if !ok {
			return 0, errors.New("harness: request body closed")
		}
		if c == 0 {
			r.mu.Lock()
			r.bodyEOF = true
			r.mu.Unlock()
			return 0, io.EOF
		}
		n = c
	}
	m := int(min(n, int64(len(p))))
	r.mu.Lock()
	off := r.bodyGiven
	r.mu.Unlock()
	for i := 0; i < m; i++ {
		p[i] = sendByte(r.id, off+int64(i))
	}
	r.mu.Lock()
	r.bodyGiven += int64(m)
	r.mu.Unlock()
	r.pendingBody = n - int64(m)
	return m, nil
}

func (b ctlBody) Close() error {
	b.r.closeOnce.Do(func() { close(b.r.bodyClosed) })
	return nil
}

type tworld struct {
	cfg          tconfig
	cl, sv       *memnet.Conn
	tr           *http2.Transport
	cc           *http2.ClientConn
	led          *ledger.Ledger
	sp, tp       h2wire.Parser
	enc          *h2wire.Encoder
	reqs         map[int]*treq
	rmu          sync.Mutex
	opened, base int
	sentBody     map[uint32]int64
	prefaceSeen  bool
	viol         []ledger.Violation
	trace        []string
	keepTrace    bool
	trMaxFrame   int64
	advMaxFrame  int64 // the SETTINGS_MAX_FRAME_SIZE the scripted server sent last
	paused       bool  // the scripted server does not read
}

func newTWorld(cfg tconfig) *tworld {
	w := &tworld{cfg: cfg, led: ledger.New(), reqs: map[int]*treq{}, sentBody: map[uint32]int64{}, enc: h2wire.NewEncoder()}
	w.led.SubjOpens = true
	w.led.SendPattern = sendByte
	w.cl, w.sv = memnet.Pair(memnet.TCPAddr("10.0.0.1", 40001), memnet.TCPAddr("127.0.0.1", 443))
	t1 := &http.Transport{HTTP2: &http.HTTP2Config{MaxReceiveBufferPerStream: cfg.PerStream, MaxReceiveBufferPerConnection: cfg.PerConn}}
	tr, err := http2.ConfigureTransports(t1)
	if err != nil {
		panic(err)
	}
	w.tr = tr
	// (without this a Transport does not wait for a stream slot on a full connection: it declares the connection
	// unusable and would dial another one)
	tr.StrictMaxConcurrentStreams = cfg.SrvMaxStreams > 0
	cc, err := tr.NewClientConn(w.cl)
	if err != nil {
		panic(err)
	}
	w.cc = cc
	return w
}

func (w *tworld) note(format string, a ...any) {
	if w.keepTrace {
		w.trace = append(w.trace, fmt.Sprintf(format, a...))
	}
}

func (w *tworld) send(b []byte) {
	for _, f := range w.sp.Feed(b) {
		w.led.PeerFrame(f)
		w.note("S> %v", f)
	}
	w.sv.Write(b)
}

func (w *tworld) ridx() []int {
	ids := make([]int, 0, len(w.reqs))
	for i := range w.reqs {
		ids = append(ids, i)
	}
	sort.Ints(ids)
	return ids
}

func (w *tworld) settle() {
	synctest.Wait()
	var b []byte
	if !w.paused {
		b = w.sv.TakeAll()
	}
	if !w.prefaceSeen && len(b) >= len(h2wire.Preface) {
		b = b[len(h2wire.Preface):]
		w.prefaceSeen = true
	}
	// what the application handed to the transport is noted before the frames that may carry it
	for _, i := range w.ridx() {
		r := w.reqs[i]
		r.mu.Lock()
		given := r.bodyGiven
		r.mu.Unlock()
		if d := given - r.repGiven; d > 0 {
			w.led.AppWrite(r.id, d)
			r.repGiven = given
		}
	}
	for _, f := range w.tp.Feed(b) {
		w.led.SubjFrame(f)
		if w.keepTrace {
			extra := ""
			switch f.Type {
			case h2wire.TWindowUpdate:
				extra = fmt.Sprintf(" incr=%d", f.WindowIncrement())
			case h2wire.TRSTStream:
				extra = fmt.Sprintf(" code=%d", f.RSTCode())
			case h2wire.TGoAway:
				_, c := f.GoAwayFields()
				extra = fmt.Sprintf(" code=%d", c)
			}
			w.note("T> %v%s", f, extra)
		}
	}
	if w.sv.PeerGone() && !w.led.ConnClosed {
		w.led.SubjClosedConn()
		w.note("T> (connection closed)")
	}
	for _, i := range w.ridx() {
		r := w.reqs[i]
		r.mu.Lock()
		rt, cl, done, bad, end := r.readTotal, r.closed, r.done, r.readBad, r.readEnd
		r.mu.Unlock()
		if d := rt - r.repRead; d > 0 {
			w.led.AppRead(r.id, d)
			r.repRead = rt
		}
		if cl && !r.repClosed {
			w.led.AppCloseBody(r.id)
			r.repClosed = true
		}
		if (done || cl || end != "") && !r.repDone {
			w.led.AppReturn(r.id) // the application will not read this response any further
			r.repDone = true
		}
		if bad != "" {
			w.viol = append(w.viol, ledger.Violation{Kind: "response-body-corrupted", Stream: r.id, Msg: bad})
		}
		if s := w.led.Streams[r.id]; s != nil && rt > s.DataAccepted {
			w.viol = append(w.viol, ledger.Violation{Kind: "excess-data-delivered", Stream: r.id,
				Msg: fmt.Sprintf("the application read %d response body bytes of stream %d, only %d were sent within the advertised windows", rt, r.id, s.DataAccepted)})
		}
	}
	if w.paused {
		return // what the Transport owes (credit, queued data) is in its blocked writes: judged after the server reads again
	}
	w.viol = append(w.viol, w.led.Quiesce()...)
	// everything the Transport wrote has been read: its own idea of the connection send window is the peer's
	if !w.led.Terminal() && !w.led.ConnClosed && !w.led.PeerViolated && len(w.viol) == 0 {
		f := http2.VerifC12TransportSnapshot(w.cc)
		if !f.Valid {
			w.lockedUp()
		} else if int64(f.ConnOut) != w.led.ConnSend {
			w.viol = append(w.viol, ledger.Violation{Kind: "send-window-accounting", Msg: fmt.Sprintf("with nothing in flight the Transport believes it may send %d more bytes on the connection, the window the peer granted minus the DATA it received leaves %d: %d bytes of send window are lost to the Transport (queued data will wait for window that is there)", f.ConnOut, w.led.ConnSend, w.led.ConnSend-int64(f.ConnOut))})
		}
	}
}

// lockedUp: with every goroutine quiescent the connection mutex of the Transport is still held.
func (w *tworld) lockedUp() {
	for _, v := range w.viol {
		if v.Kind == "deadlock" {
			return
		}
	}
	wt := mutexWaiters()
	w.viol = append(w.viol, ledger.Violation{Kind: "deadlock", Cause: "a mutex of the connection is never released",
		Msg: "with every goroutine of the Transport blocked its connection mutex is held and never released (the connection can do nothing any more); waiting for a mutex: " + wt})
}

func (w *tworld) handshake(iws int64) {
	w.settle() // preface, SETTINGS, WINDOW_UPDATE from the transport
	w.advMaxFrame = ledger.DefaultMaxFrame
	if mf := w.cfg.SrvMaxFrame; mf > 0 {
		w.advMaxFrame = mf
		w.send(h2wire.Settings(h2wire.Setting{ID: 4, Val: uint32(iws)}, h2wire.Setting{ID: 5, Val: uint32(mf)}))
	} else if ms := w.cfg.SrvMaxStreams; ms > 0 {
		w.send(h2wire.Settings(h2wire.Setting{ID: 4, Val: uint32(iws)}, h2wire.Setting{ID: 3, Val: uint32(ms)}))
	} else {
		w.send(h2wire.Settings(h2wire.Setting{ID: 4, Val: uint32(iws)}))
	}
	w.send(h2wire.SettingsAck())
	w.settle()
	w.led.EndHandshake()
	w.trMaxFrame = w.led.SubjMaxFrame
}

func (w *tworld) openReq(idx int) *treq {
	id := uint32(2*idx + 1)
	ctx, cancel := context.WithCancel(context.Background())
	r := &treq{idx: idx, id: id, bodyCmd: make(chan int64, 1), bodyClosed: make(chan struct{}), rcmd: make(chan hcmd, 1), cancel: cancel}
	w.rmu.Lock()
	w.reqs[idx] = r
	w.rmu.Unlock()
	req, _ := http.NewRequestWithContext(ctx, "POST", fmt.Sprintf("https://x/s%d", id), ctlBody{r})
	req.ContentLength = -1
	go func() {
		defer func() {
			r.mu.Lock()
			r.done = true
			r.rbusy = false
			r.mu.Unlock()
		}()
		res, err := w.cc.RoundTrip(req)
		r.mu.Lock()
		if err != nil {
			r.rtErr = err.Error()
		} else {
			r.gotRes = true
		}
		r.mu.Unlock()
		if err != nil {
			return
		}
		buf := make([]byte, 0, 1024)
		for c := range r.rcmd {
			r.mu.Lock()
			r.rbusy = true
			r.mu.Unlock()
			switch c.k {
			case "rd":
				if int64(cap(buf)) < c.n {
					buf = make([]byte, c.n)
				}
				b := buf[:c.n]
				m, err := res.Body.Read(b)
				r.mu.Lock()
				for i := 0; i < m; i++ {
					if want := bodyByte(id, r.readTotal+int64(i)); b[i] != want && r.readBad == "" {
						r.readBad = fmt.Sprintf("response body offset %d: application read %#x, the server sent %#x", r.readTotal+int64(i), b[i], want)
					}
				}
				r.readTotal += int64(m)
				if err != nil {
					r.readEnd = err.Error()
				}
				r.mu.Unlock()
			case "cb":
				res.Body.Close()
				r.mu.Lock()
				r.closed = true
				r.mu.Unlock()
			}
			r.mu.Lock()
			r.rbusy = false
			r.mu.Unlock()
		}
		res.Body.Close()
	}()
	return r
}

func (w *tworld) srvData(id uint32, n int64, pad int, end bool) []byte {
	off := w.sentBody[id]
	p := make([]byte, n)
	for i := range p {
		p[i] = bodyByte(id, off+int64(i))
	}
	w.sentBody[id] = off + n
	return h2wire.Data(id, p, end, pad)
}

func (w *tworld) prelude() {
	cfg := w.cfg
	if cfg.ConnRoom < 0 {
		w.handshake(cfg.SrvIWS)
		return
	}
	// drain the transport's connection send window down to ConnRoom through one request with a wide stream window
	w.handshake(1 << 20)
	r := w.openReq(0)
	w.settle()
	n := int64(ledger.DefaultWindow) - cfg.ConnRoom
	for n > 0 {
		k := min(n, 16384)
		r.bodyCmd <- k
		w.settle()
		n -= k
	}
	r.bodyCmd <- 0
	w.settle()
	w.send(h2wire.Headers(r.id, w.enc.Block(h2wire.HF{":status", "200"}), true, true, nil, -1))
	w.settle()
	w.send(h2wire.Settings(h2wire.Setting{ID: 4, Val: uint32(cfg.SrvIWS)}))
	w.settle()
	w.base, w.opened = 1, 1
}

func (w *tworld) shutdown() {
	for _, r := range w.reqs {
		r.cancel()
	}
	w.sv.Close()
	synctest.Wait()
	for _, r := range w.reqs {
		close(r.bodyCmd)
		close(r.rcmd)
	}
	for _, v := range w.viol {
		if v.Kind == "deadlock" {
			return // the connection mutex is held for good: Close would wait for it too
		}
	}
	w.cc.Close()
	synctest.Wait()
	time.Sleep(time.Minute) // let timers of the transport (idle, ping) and the aborted requests drain
	synctest.Wait()
}

func (w *tworld) enabled() []act {
	cfg := w.cfg
	if w.led.Terminal() || len(w.viol) > 0 {
		return nil
	}
	var out []act
	nOpen := 0
	for i := w.base; i < w.opened; i++ {
		if s := w.led.Streams[uint32(2*i+1)]; s != nil && !s.Closed() {
			nOpen++
		}
	}
	if w.opened-w.base < cfg.MaxStreams && nOpen < cfg.MaxStreams {
		out = append(out, act{K: "open", S: w.opened})
	}
	lastClosed := -1
	for i := w.base; i < w.opened; i++ {
		r := w.reqs[i]
		s := w.led.Streams[r.id]
		if s == nil {
			continue
		}
		r.mu.Lock()
		want, got, rb, done, end, cl := r.wantBody, r.gotRes, r.rbusy, r.done, r.readEnd, r.closed
		bodyOpen := !r.bodyEOF // the request body has not been ended by the client (it may be blocked on a window)
		r.mu.Unlock()
		if want && !s.Closed() {
			for _, n := range cfg.BodyN {
				out = append(out, act{K: "W", S: i, N: n})
			}
			if !cfg.NoRet {
				out = append(out, act{K: "ret", S: i}) // request body EOF
			}
		}
		if got && !rb && !done && !cl {
			if end == "" {
				for _, n := range cfg.ReadN {
					out = append(out, act{K: "rd", S: i, N: n})
				}
			}
			out = append(out, act{K: "cb", S: i})
		}
		if s.Closed() {
			lastClosed = i
			continue
		}
		for _, k := range cfg.WUk {
			out = append(out, act{K: "wu", S: i, N: k})
		}
		if !((cfg.Pause || cfg.SrvMaxStreams > 0) && s.PeerEnded) {
			// (with a server that may stop reading: no RST_STREAM after its own END_STREAM - the request goroutine then
			// finds "peer closed" and "aborted" ready in one select, Go picks at random, and only one of the two paths
			// writes a RST_STREAM, which a blocked writer turns into a visibly different state)
			out = append(out, act{K: "rst", S: i})
		}
		if !s.PeerEnded {
			for _, n := range cfg.DataLen {
				for _, p := range cfg.Pads {
					if n+int64(p)+1 > w.trMaxFrame {
						continue
					}
					out = append(out, act{K: "data", S: i, N: n, P: p})
				}
			}
			if !(cfg.SrvMaxStreams > 0 && bodyOpen) {
				// (with requests waiting for a stream slot: no END_STREAM from the server while the request body is
				// still being sent - the same random select as above then decides when the slot is given up, and with
				// it whether the waiting request is on the wire at the next quiescent point)
				out = append(out, act{K: "data", S: i, N: 0, P: -1, E: true})
			}
		}
	}
	if lastClosed >= 0 {
		for _, n := range cfg.ClosedLen {
			out = append(out, act{K: "data", S: lastClosed, N: n, P: -1})
		}
	}
	for _, k := range cfg.WUk {
		out = append(out, act{K: "wu", S: -1, N: k})
	}
	for _, v := range cfg.SetV {
		if v != w.led.IWS {
			out = append(out, act{K: "set", N: v})
		}
	}
	for _, v := range cfg.MaxFrameV {
		if v != w.advMaxFrame {
			out = append(out, act{K: "mfs", N: v})
		}
	}
	if cfg.Pause {
		if w.paused {
			out = append(out, act{K: "resume"})
		} else {
			out = append(out, act{K: "pause"})
		}
	}
	return out
}

func (w *tworld) apply(a act) {
	id := uint32(2*a.S + 1)
	w.note("-- %v", a)
	switch a.K {
	case "open":
		r := w.openReq(a.S)
		w.opened = a.S + 1
		w.settle() // request HEADERS on the wire
		if s := w.led.Streams[r.id]; s != nil && !w.led.Terminal() {
			w.send(h2wire.Headers(r.id, w.enc.Block(h2wire.HF{":status", "200"}), false, true, nil, -1))
			r.answered = true
		}
	case "W":
		w.reqs[a.S].bodyCmd <- a.N
	case "ret":
		w.reqs[a.S].bodyCmd <- 0
	case "rd", "cb":
		w.reqs[a.S].rcmd <- hcmd{a.K, a.N}
	case "wu":
		sid := uint32(0)
		if a.S >= 0 {
			sid = id
		}
		w.send(h2wire.WindowUpdate(sid, uint32(a.N)))
	case "set":
		w.send(h2wire.Settings(h2wire.Setting{ID: 4, Val: uint32(a.N)}))
	case "pause":
		w.paused = true
		w.cl.SetWriteCap(1)
	case "resume":
		w.paused = false
		w.cl.SetWriteCap(0)
	case "mfs":
		w.advMaxFrame = a.N
		w.send(h2wire.Settings(h2wire.Setting{ID: 5, Val: uint32(a.N)}))
	case "rst":
		w.send(h2wire.RST(id, 8))
	case "data":
		w.send(w.srvData(id, a.N, a.P, a.E))
	default:
		panic("unknown action " + a.K)
	}
}

// answerAdmitted: a request that had to wait for a stream slot inside the Transport has put its HEADERS on the wire
// now; the scripted server answers it like every other request.
func (w *tworld) answerAdmitted() {
	if w.cfg.SrvMaxStreams == 0 || w.paused {
		return
	}
	for _, i := range w.ridx() {
		r := w.reqs[i]
		if !r.answered && i >= w.base {
			if s := w.led.Streams[r.id]; s != nil && !w.led.Terminal() && len(w.viol) == 0 {
				w.send(h2wire.Headers(r.id, w.enc.Block(h2wire.HF{":status", "200"}), false, true, nil, -1))
				r.answered = true
				w.settle()
			}
		}
	}
}

func (w *tworld) drainReads() {
	for _, i := range w.ridx() {
		r := w.reqs[i]
		r.mu.Lock()
		ok := r.gotRes && !r.rbusy && !r.done && !r.closed && r.readEnd == ""
		r.mu.Unlock()
		if ok {
			r.rcmd <- hcmd{"rd", 1 << 17}
			w.settle()
		}
	}
}

func (w *tworld) key() string {
	var b strings.Builder
	b.WriteString(w.led.Key())
	fmt.Fprintf(&b, "#o%d a%d p%v|", w.opened, w.advMaxFrame, w.paused)
	for _, i := range w.ridx() {
		if i < w.base {
			continue
		}
		r := w.reqs[i]
		r.mu.Lock()
		fmt.Fprintf(&b, "r%d:%v%v%v%v%v%v e%v g%d rt%d|", r.id, r.wantBody, r.bodyEOF, r.gotRes, r.rbusy, r.closed, r.done, r.readEnd != "", r.bodyGiven, r.readTotal)
		r.mu.Unlock()
	}
	f := http2.VerifC12TransportSnapshot(w.cc)
	if !f.Valid {
		w.lockedUp()
	}
	fmt.Fprintf(&b, "#cc %d %d %d %d %d|", f.ConnOut, f.ConnInAvail, f.ConnInUnsent, f.MaxFrameSize, f.InitialSend)
	for _, s := range f.Streams {
		fmt.Fprintf(&b, "%d:%d %d %d %d|", s.ID, s.Out, s.InAvail, s.InUnsent, s.BodyLen)
	}
	return b.String()
}

// trun executes one action sequence against a fresh Transport connection.
func trun(t *testing.T, cfg tconfig, seq []act, keepTrace bool) (res result) {
	ev.Journal("transport cfg=%s seq=%v", cfg.Name, seqString(seq))
	br := runBubble(t, func() {
		w := newTWorld(cfg)
		w.keepTrace = keepTrace
		defer func() {
			w.shutdown()
			if wt := mutexWaiters(); wt != "" {
				res.viol = append(res.viol, ledger.Violation{Kind: "deadlock", Cause: "a mutex of the connection is never released",
					Msg: "after the connection was closed, every request cancelled and a minute had passed, goroutines of the Transport still wait for a mutex nobody will release: " + wt})
				res.hung = true
			}
		}()
		w.prelude()
		if len(w.viol) == 0 {
			for i, a := range seq {
				ok := false
				for _, e := range w.enabled() {
					if e == a {
						ok = true
						break
					}
				}
				if !ok {
					res.harness = fmt.Sprintf("replay divergence: action %d (%v) of %v is not enabled", i, a, seqString(seq))
					return
				}
				w.apply(a)
				w.settle()
				w.answerAdmitted()
				if len(w.viol) > 0 {
					break
				}
			}
		}
		if w.led.PeerViolated && len(w.viol) == 0 {
			w.drainReads()
		}
		res.key = w.key()
		res.enabled = w.enabled()
		res.terminal = w.led.Terminal()
		res.viol = w.viol
		res.trace = w.trace
	})
	if br.Panic != nil {
		res.viol = append(res.viol, ledger.Violation{Kind: "panic", Msg: fmt.Sprintf("panic: %v\n%s", br.Panic, br.Stack)})
	}
	if br.Deadlock != "" {
		locked := false
		for _, v := range res.viol {
			locked = locked || v.Kind == "deadlock"
		}
		if !locked { // (a reported lock-up leaves its goroutines behind when the bubble ends: that is the finding, not a harness fault)
			res.harness = "goroutines blocked forever at the end of the execution: " + br.Deadlock
		}
	}
	if br.Hang != "" {
		res.viol = append(res.viol, ledger.Violation{Kind: "deadlock", Cause: br.Hang,
			Msg: "the endpoint can never become quiescent again: every goroutine of the connection is blocked and one waits for a mutex nobody will release: " + br.Hang + "\n" + br.HangStack})
		res.hung = true
	}
	if br.Watchdog != "" {
		res.harness = br.Watchdog
	}
	return res
}
