//go:build verif

package c14

import (
	"context"
	"errors"
	"fmt"
	"io"
	"log"
	"os"
	"path/filepath"
	"testing"
	"testing/synctest"
	"time"

	fingerproxy "github.com/wi1dcard/fingerproxy"
	"github.com/wi1dcard/fingerproxy/pkg/certwatcher"
	vfs "github.com/wi1dcard/fingerproxy/pkg/vfsnotify"
	"github.com/wi1dcard/fingerproxy/pkg/vhook"
	"verif/ev"
	"verif/mc"
	"verif/ref/certenv"
)

// Part C: what fsnotify REPORTS besides events. The real fsnotify has one reader goroutine that hands events to
// Events and errors (an inotify queue overflow after a burst of writes, a failed read) to Errors, each with a blocking
// send, in the order they occurred. The environment here does the same: a sequence of error reports and update steps
// goes through one delivering goroutine. Updates after any number of reports must still be picked up: at the
// quiescent end of every sequence the valid pair on disk is the pair presented.
//
// Sequences: every word of length <= 3 (quick) / 4 (thorough) over {E (error report), U (update to the next
// generation in the layout's atomic style), W (in-place rewrite of both files with the current pair: events without a
// change)} that contains at least one U after an E, for both layouts and two error values.
func errorReports(t *testing.T, rep *ev.Report, mat *certenv.Material, tmp string, shard, of int) {
	depth := 3
	if ev.Thorough() {
		depth = 4
	}
	var words []string
	var gen func(w string)
	gen = func(w string) {
		if len(w) > 0 {
			seenE, ok := false, false
			for _, c := range w {
				if c == 'E' {
					seenE = true
				}
				if c == 'U' && seenE {
					ok = true
				}
			}
			if ok {
				words = append(words, w)
			}
		}
		if len(w) == depth {
			return
		}
		for _, c := range "EUW" {
			gen(w + string(c))
		}
	}
	gen("")
	job := 0
	for _, layout := range []certenv.Layout{certenv.Plain, certenv.K8s} {
		for ei, errv := range []error{vfs.ErrEventOverflow, errors.New("read /proc/self/fd/7: interrupted system call")} {
			for _, w := range words {
				job++
				if job%of != shard {
					continue
				}
				errorReportCase(t, rep, mat, tmp, layout, w, ei, errv)
			}
		}
	}
}

func errorReportCase(t *testing.T, rep *ev.Report, mat *certenv.Material, tmp string, layout certenv.Layout, word string, ei int, errv error) {
	desc := fmt.Sprintf("layout %v, sequence %s (E: fsnotify reports %q, U: update to the next pair, W: rewrite of the current pair)", layout, word, errv)
	execSeq++
	dir := filepath.Join(tmp, fmt.Sprintf("e%d", execSeq))
	if err := os.Mkdir(dir, 0o700); err != nil {
		rep.HarnessError("%v", err)
		return
	}
	defer os.RemoveAll(dir)
	res := runBubble(t, func() {
		disk, err := certenv.NewDisk(dir, layout, mat)
		if err != nil {
			rep.HarnessError("error reports: layout: %v", err)
			return
		}
		model := certenv.New(layout)
		g := &gates{passed: map[string]int{}}
		e := &env{m: model, d: disk, g: g}
		vhook.SetHandler(func(site string, key any) {})
		defer vhook.SetHandler(nil)
		vfs.SetBackend(e)
		defer vfs.SetBackend(nil)
		certwatcher.Logger = log.New(io.Discard, "", 0)
		certwatcher.VerboseLogs = false
		cw, err := certwatcher.New(disk.Path(certenv.Cert), disk.Path(certenv.Key))
		if err != nil || cw == nil {
			rep.HarnessError("error reports: certwatcher.New: %v", err)
			return
		}
		cfg := fingerproxy.VerifC14DefaultTLSConfig(cw)
		ctx, cancel := context.WithCancel(context.Background())
		done := make(chan struct{})
		defer func() {
			close(done)
			cancel()
			synctest.Wait()
		}()
		go cw.Start(ctx)
		synctest.Wait()
		e.mu.Lock()
		w := e.w
		e.mu.Unlock()
		if w == nil {
			rep.HarnessError("error reports: the watcher was not opened")
			return
		}
		// fsnotify's reader: one goroutine, blocking sends, in order. A token is either an error report or "read the
		// kernel queue": events are translated (watch descriptor -> path) when the reader gets to them, as the real one does.
		type item struct{ err error }
		queue := make(chan item, 4096)
		delivered, queued := 0, 0
		go func() {
			for {
				var it item
				select {
				case <-done:
					return
				case it = <-queue:
				}
				if it.err != nil {
					select {
					case w.Errors <- it.err:
						delivered++
					case <-done:
						return
					}
					continue
				}
				for {
					e.mu.Lock()
					evn, ok := model.Next()
					e.mu.Unlock()
					if !ok {
						break
					}
					queued++
					select {
					case w.Events <- vfs.Event{Name: e.realName(evn.Name), Op: vfs.Op(evn.Op)}:
						delivered++
					case <-done:
						return
					}
				}
			}
		}()
		step := func(s certenv.Step) bool {
			e.mu.Lock()
			r := model.Apply(s, func() bool { return false })
			e.mu.Unlock()
			if derr := disk.Do(s); (r != "") != (derr != nil) {
				rep.HarnessError("error reports: %s: step %v: model says %q, file system says %v", desc, s, r, derr)
				return false
			}
			queue <- item{}
			synctest.Wait()
			return true
		}
		cur := 1
		for _, c := range word {
			switch c {
			case 'E':
				queue <- item{err: errv}
				queued++
				synctest.Wait()
			case 'W':
				if !step(certenv.Step{Op: certenv.OpFull, F: certenv.Cert, Gen: cur}) || !step(certenv.Step{Op: certenv.OpFull, F: certenv.Key, Gen: cur}) {
					return
				}
			case 'U':
				cur = cur%3 + 1 // 2, 3, 1, ...
				if layout == certenv.K8s {
					if !step(certenv.Step{Op: certenv.OpSwap, Gen: cur}) {
						return
					}
				} else if !step(certenv.Step{Op: certenv.OpRename, F: certenv.Cert, Gen: cur}) || !step(certenv.Step{Op: certenv.OpRename, F: certenv.Key, Gen: cur}) {
					return
				}
			}
		}
		queue <- item{}
		synctest.Wait()
		// no deadline in the statement: timers of the implementation (debounce, retry) get their time
		time.Sleep(30 * time.Second)
		synctest.Wait()
		rep.Add("error_report_cases", 1)
		rep.Add("evaluations", 1)
		rep.Note("distinct_nontrivial", desc)
		s, _ := observe(mat, cfg, "localhost")
		e.mu.Lock()
		valid := model.ValidPair()
		e.mu.Unlock()
		if valid != cur {
			rep.HarnessError("error reports: %s: the disk holds pair %d, expected %d", desc, valid, cur)
			return
		}
		if s.code() != fmt.Sprint(cur) {
			rep.Violate(map[string]any{"kind": "no-convergence-after-error-report", "layout": fmt.Sprint(layout), "error": ei},
				map[string]any{"part": "error-reports", "layout": fmt.Sprint(layout), "sequence": word, "error": errv.Error()},
				"%s: the disk holds the valid pair %d, every step is over and the watcher has been given time, but pair %s is presented; fsnotify's reader got rid of %d of its %d reports and events (the rest is not being received)", desc, cur, s.code(), delivered, queued)
		}
	})
	if res.Panic != nil {
		if he, ok := res.Panic.(mc.HarnessError); ok {
			rep.HarnessError("error reports: %v", he)
		} else {
			rep.Violate(map[string]any{"kind": "panic", "part": "error-reports"}, map[string]any{"sequence": word}, "%s: panic: %v\n%s", desc, res.Panic, res.Stack)
		}
	}
}
