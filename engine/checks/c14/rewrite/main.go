// Command rewrite prepares the build overlay entries check C14 needs (see
// make_overlay in /verif/bin/check, "rewrite" contract): it prints
// "orig<TAB>new" lines on stdout and writes rewritten copies only into the
// work directory. Nothing under /repo is touched.
//
//		go run ./checks/c14/rewrite {repo} {work}
//
//	 1. every non-test .go file of {repo}/pkg/certwatcher — taken from the copy the
//	    driver has already produced for it, if any (sync shim on top of a --mutant
//	    copy), else from /repo — is parsed and printed again with
//	    - import "github.com/fsnotify/fsnotify" redirected to the virtual package
//	    github.com/wi1dcard/fingerproxy/pkg/vfsnotify (a same-API fake driven by the
//	    environment model),
//	    - every call tls.LoadX509KeyPair redirected to vtlsshim.LoadX509KeyPair (the
//	    std-lib body with a scheduling point between the two file reads);
//	 2. the two virtual packages are mapped to checks/c14/fakes/…;
//	 3. the root-package export shim _inpkg/root/zz_verif_c14_export.go is mapped into
//	    the root package.
//
// A file that no longer parses is a build failure of /repo, reported by the driver.
package main

import (
	"bytes"
	"fmt"
	"go/ast"
	"go/parser"
	"go/printer"
	"go/token"
	"os"
	"path/filepath"
	"strconv"
	"strings"
)

const (
	realFsnotify = "github.com/fsnotify/fsnotify"
	fakeFsnotify = "github.com/wi1dcard/fingerproxy/pkg/vfsnotify"
	tlsShim      = "github.com/wi1dcard/fingerproxy/pkg/vtlsshim"
)

func die(format string, a ...any) {
	fmt.Fprintf(os.Stderr, "c14 rewrite: "+format+"\n", a...)
	os.Exit(1)
}

func main() {
	if len(os.Args) != 3 {
		die("usage: rewrite <repo> <work>")
	}
	repo, work := os.Args[1], os.Args[2]
	engine, err := os.Getwd()
	if err != nil {
		die("%v", err)
	}
	pdir := filepath.Join(repo, "pkg", "certwatcher")
	ents, err := os.ReadDir(pdir)
	if err != nil {
		die("%v", err)
	}
	names := map[string]bool{}
	for _, e := range ents {
		names[e.Name()] = true
	}
	// files a --mutant adds to the package
	if ms, err := os.ReadDir(filepath.Join(work, "mut", "pkg", "certwatcher")); err == nil {
		for _, e := range ms {
			names[e.Name()] = true
		}
	}
	for fn := range names {
		if !strings.HasSuffix(fn, ".go") || strings.HasSuffix(fn, "_test.go") {
			continue
		}
		src := ""
		for _, cand := range []string{
			filepath.Join(work, "syncshim_certwatcher_"+fn),
			filepath.Join(work, "mut", "pkg", "certwatcher", fn),
			filepath.Join(pdir, fn),
		} {
			if _, err := os.Stat(cand); err == nil {
				src = cand
				break
			}
		}
		if src == "" {
			continue
		}
		out := filepath.Join(work, "c14rw_"+fn)
		changed, err := rewriteFile(src, out)
		if err != nil {
			// leave the file alone: the driver's `go build` of /repo reports the parse error
			fmt.Fprintf(os.Stderr, "c14 rewrite: %s: %v (left as is)\n", src, err)
			continue
		}
		if changed {
			fmt.Printf("%s\t%s\n", filepath.Join(pdir, fn), out)
		}
	}
	fmt.Printf("%s\t%s\n", filepath.Join(repo, "pkg", "vfsnotify", "fsnotify.go"), filepath.Join(engine, "checks", "c14", "fakes", "fsnotify", "fsnotify.go"))
	fmt.Printf("%s\t%s\n", filepath.Join(repo, "pkg", "vtlsshim", "tlsshim.go"), filepath.Join(engine, "checks", "c14", "fakes", "tlsshim", "tlsshim.go"))
	fmt.Printf("%s\t%s\n", filepath.Join(repo, "zz_verif_c14_export.go"), filepath.Join(engine, "_inpkg", "root", "zz_verif_c14_export.go"))
}

func rewriteFile(src, out string) (bool, error) {
	fset := token.NewFileSet()
	f, err := parser.ParseFile(fset, src, nil, parser.ParseComments)
	if err != nil {
		return false, err
	}
	changed := false
	tlsName := "" // local name of crypto/tls in this file
	for _, im := range f.Imports {
		p, _ := strconv.Unquote(im.Path.Value)
		switch p {
		case realFsnotify:
			if im.Name == nil {
				im.Name = ast.NewIdent("fsnotify")
			}
			im.Path.Value = strconv.Quote(fakeFsnotify)
			changed = true
		case "crypto/tls":
			tlsName = "tls"
			if im.Name != nil {
				tlsName = im.Name.Name
			}
		}
	}
	redirected := false
	osName := ""
	for _, im := range f.Imports {
		if p, _ := strconv.Unquote(im.Path.Value); p == "os" {
			osName = "os"
			if im.Name != nil {
				osName = im.Name.Name
			}
		}
	}
	osRedirected := false
	if osName != "" && osName != "_" && osName != "." {
		ast.Inspect(f, func(n ast.Node) bool {
			sel, ok := n.(*ast.SelectorExpr)
			if !ok {
				return true
			}
			x, ok := sel.X.(*ast.Ident)
			if ok && x.Name == osName && x.Obj == nil && sel.Sel.Name == "ReadFile" {
				x.Name = "vtlsshim"
				redirected = true
				osRedirected = true
			}
			return true
		})
	}
	tlsRedirected := false
	if tlsName != "" && tlsName != "_" && tlsName != "." {
		ast.Inspect(f, func(n ast.Node) bool {
			sel, ok := n.(*ast.SelectorExpr)
			if !ok {
				return true
			}
			x, ok := sel.X.(*ast.Ident)
			if ok && x.Name == tlsName && x.Obj == nil && sel.Sel.Name == "LoadX509KeyPair" {
				x.Name = "vtlsshim"
				redirected = true
				tlsRedirected = true
			}
			return true
		})
	}
	if !changed && !redirected {
		return false, nil
	}
	var buf bytes.Buffer
	if err := printer.Fprint(&buf, fset, f); err != nil {
		return false, err
	}
	s := buf.String()
	if redirected {
		// add the import as a separate declaration right after the package clause's import block
		// (textually: after the first "import (" line), keeping crypto/tls alive even if that was its only use.
		add := "\n\tvtlsshim " + strconv.Quote(tlsShim) + "\n"
		keep := ""
		if tlsRedirected {
			keep += "\nvar _ = " + tlsName + ".VersionTLS13 // c14 rewrite: keeps crypto/tls imported\n"
		}
		if osRedirected {
			keep += "\nvar _ = " + osName + ".ErrNotExist // c14 rewrite: keeps os imported\n"
		}
		if i := strings.Index(s, "import ("); i >= 0 {
			s = s[:i+len("import (")] + add + s[i+len("import ("):]
		} else if i := strings.Index(s, "\nimport "); i >= 0 {
			s = s[:i] + "\nimport vtlsshim " + strconv.Quote(tlsShim) + "\n" + s[i:]
		} else {
			return false, fmt.Errorf("no import declaration to extend")
		}
		s += keep
	}
	if err := os.WriteFile(out, []byte(s), 0o644); err != nil {
		return false, err
	}
	return true, nil
}
