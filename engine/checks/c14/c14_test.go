//go:build verif

// C14 — certificate hot-reload is safe and converges.
//
// Exploration of the REAL certwatcher.CertWatcher (New / Start / Watch /
// handleEvent / ReadCertificate / GetCertificate) and the binary's
// defaultTLSConfig against an environment model:
//
//   - files are real files in a per-execution directory (tls.LoadX509KeyPair
//     parses real PEM); three generations of key pairs exist per process;
//   - the fsnotify import of pkg/certwatcher is redirected (build overlay) to a
//     same-API fake whose Add and event stream are answered by verif/ref/certenv
//     (inodes, inotify watches, fsnotify's path<->descriptor layer);
//   - tls.LoadX509KeyPair is redirected to the std-lib body with a scheduling
//     point between the two file reads; "sync" is the channel-based shim;
//   - gates: Watcher.Add, handleEvent entry, between the two reads, before the swap.
//
// Every update history up to a depth (outer enumeration) x every interleaving
// of updater steps with watcher progress up to a deviation bound (mc.Explorer).
// Oracles, written from the property statement only:
//
//	safety      at every observation the proxy presents a certificate, its public key
//	            matches the private key, and that (cert g, key g) was on disk together
//	            at some earlier instant of the history;
//	convergence at every quiescent state (every event handled) of a history made of the
//	            three supported styles: if the disk holds the valid pair g, g is presented;
//	last good   on the undisturbed schedule (every event handled before the next step),
//	            while the disk is invalid the pair presented is the last valid one.
//
// The environment model is not trusted: every operation history up to a depth
// is also executed on a real directory under the real fsnotify 1.7.0 / real
// inotify (checks/c14/realfs) and must produce event sequences the model allows.
package c14

import (
	"bytes"
	"context"
	"crypto/ecdsa"
	"crypto/tls"
	"encoding/json"
	"fmt"
	"log"
	"os"
	"path/filepath"
	"runtime"
	"runtime/debug"
	"sort"
	"strings"
	"sync"
	"syscall"
	"testing"
	"testing/synctest"
	"time"

	fingerproxy "github.com/wi1dcard/fingerproxy"
	"github.com/wi1dcard/fingerproxy/pkg/certwatcher"
	vfs "github.com/wi1dcard/fingerproxy/pkg/vfsnotify"
	"github.com/wi1dcard/fingerproxy/pkg/vhook"
	"verif/checks/c14/realfs"
	"verif/ev"
	"verif/mc"
	"verif/memnet"
	"verif/ref/certenv"
)

// ---- bubble --------------------------------------------------------------------

type bubbleResult struct {
	Panic    any
	Stack    string
	Deadlock string
}

// runBubble executes body in a fresh testing/synctest bubble (fake clock, exact quiescence).
// A panic of the body is recovered and returned; goroutines left blocked forever at the end
// of the bubble are returned as Deadlock.
func runBubble(t *testing.T, body func()) (res bubbleResult) {
	defer func() {
		if r := recover(); r != nil {
			s := fmt.Sprint(r)
			if strings.Contains(s, "deadlock") || strings.Contains(s, "blocked goroutines remain") {
				res.Deadlock = s
				return
			}
			panic(r)
		}
	}()
	synctest.Test(t, func(t *testing.T) {
		defer func() {
			if r := recover(); r != nil {
				res.Panic = r
				res.Stack = string(debug.Stack())
			}
		}()
		body()
	})
	return res
}

// ---- gates -------------------------------------------------------------------

const (
	siteAdd     = "fsnotify.Add"
	siteHandle  = "certwatcher.handleEvent"
	siteBetween = "tls.LoadX509KeyPair.betweenReads"
	siteSwap    = "certwatcher.ReadCertificate.beforeSwap"
	siteRead    = "os.ReadFile.before"
)

type parked struct {
	site    string
	extra   string
	seq     int
	inWatch bool   // the parked goroutine is the Watch loop itself (handleEvent called synchronously)
	note    string // what this goroutine has seen so far (for the canonical state key); filled in by the explorer
	ch      chan struct{}
}

type gates struct {
	mu     sync.Mutex
	on     bool
	parked []*parked
	seq    int
	passed map[string]int
}

// calledFromWatch reports whether the calling goroutine has (*CertWatcher).Watch on its stack.
func calledFromWatch() bool {
	buf := make([]byte, 32<<10) // Watch is at the bottom of the stack, i.e. at the end of the text
	b := buf[:runtime.Stack(buf, false)]
	return bytes.Contains(b, []byte("CertWatcher).Watch("))
}

func (g *gates) point(site string, extra string) {
	g.mu.Lock()
	g.passed[site]++
	if !g.on {
		g.mu.Unlock()
		return
	}
	g.seq++
	p := &parked{site: site, extra: extra, seq: g.seq, ch: make(chan struct{})}
	// asked of the goroutine itself at every gate: code that hands the reload to another goroutine leaves the
	// Watch loop free to take the next event while that goroutine is parked
	p.inWatch = calledFromWatch()
	g.parked = append(g.parked, p)
	g.mu.Unlock()
	<-p.ch
}

func (g *gates) list() []*parked {
	g.mu.Lock()
	defer g.mu.Unlock()
	out := append([]*parked(nil), g.parked...)
	sort.Slice(out, func(i, j int) bool { return out[i].seq < out[j].seq })
	return out
}

func (g *gates) release(p *parked) {
	g.mu.Lock()
	for i, q := range g.parked {
		if q == p {
			g.parked = append(g.parked[:i], g.parked[i+1:]...)
			break
		}
	}
	g.mu.Unlock()
	close(p.ch)
}

func (g *gates) open() {
	g.mu.Lock()
	g.on = false
	ps := g.parked
	g.parked = nil
	g.mu.Unlock()
	for _, p := range ps {
		close(p.ch)
	}
}

// formattingSink is an io.Writer that is not io.Discard (log.Logger skips formatting for io.Discard).
type formattingSink struct{}

func (formattingSink) Write(p []byte) (int, error) { return len(p), nil }

// ---- environment behind the fake fsnotify ---------------------------------------

type env struct {
	mu       sync.Mutex
	m        *certenv.Model
	d        *certenv.Disk
	g        *gates
	w        *vfs.Watcher
	watchers int
	addsDone int
	lastEv   string
}

func (e *env) modelName(path string) string {
	switch filepath.Clean(path) {
	case e.d.Path(certenv.Cert):
		return "cert"
	case e.d.Path(certenv.Key):
		return "key"
	}
	return "?" + path
}

func (e *env) realName(n string) string {
	switch n {
	case "cert":
		return e.d.Path(certenv.Cert)
	case "key":
		return e.d.Path(certenv.Key)
	}
	return ""
}

func (e *env) Opened(w *vfs.Watcher) error {
	e.mu.Lock()
	e.w = w
	e.watchers++
	e.mu.Unlock()
	return nil
}

func (e *env) Add(w *vfs.Watcher, name string) error {
	name = filepath.Clean(name)
	e.g.point(siteAdd, e.modelName(name))
	e.mu.Lock()
	defer e.mu.Unlock()
	e.addsDone++
	if r := e.m.AddWatch(e.modelName(name)); r != "" {
		return syscall.ENOENT
	}
	return nil
}

func (e *env) Remove(w *vfs.Watcher, name string) error { return vfs.ErrNonExistentWatch }
func (e *env) Closed(w *vfs.Watcher)                    {}

// ---- what the proxy presents ------------------------------------------------------

// selectCert is crypto/tls (*Config).getCertificate for a client that sends SNI "localhost"
// (go1.26 crypto/tls/common.go); the undisturbed schedules cross-check it with real handshakes.
func selectCert(cfg *tls.Config, serverName string) (*tls.Certificate, error) {
	hello := &tls.ClientHelloInfo{ServerName: serverName}
	// go1.26 crypto/tls: the callback is consulted when there are no static certificates or the client named a server
	if cfg.GetCertificate != nil && (len(cfg.Certificates) == 0 || len(serverName) > 0) {
		c, err := cfg.GetCertificate(hello)
		if c != nil || err != nil {
			return c, err
		}
	}
	if len(cfg.Certificates) == 0 {
		return nil, fmt.Errorf("tls: no certificates configured")
	}
	return &cfg.Certificates[0], nil
}

type served struct {
	what   string // "pair", "nil", "error", "empty", "unknown", "blocked"
	cg, kg int
	detail string
}

func (s served) code() string {
	if s.what == "pair" {
		if s.cg == s.kg {
			return fmt.Sprint(s.cg)
		}
		return fmt.Sprintf("(c%dk%d)", s.cg, s.kg)
	}
	return s.what
}

func classify(mat *certenv.Material, c *tls.Certificate, err error) served {
	if err != nil {
		return served{what: "error", detail: err.Error()}
	}
	if c == nil {
		return served{what: "nil"}
	}
	if len(c.Certificate) == 0 || c.PrivateKey == nil {
		return served{what: "empty"}
	}
	s := served{what: "unknown"}
	for g := 1; g < len(mat.CertDER); g++ {
		if bytes.Equal(c.Certificate[0], mat.CertDER[g]) {
			s.cg = g
		}
		if k, ok := c.PrivateKey.(*ecdsa.PrivateKey); ok && k.Equal(mat.Keys[g]) {
			s.kg = g
		}
	}
	if s.cg != 0 && s.kg != 0 {
		s.what = "pair"
	}
	return s
}

func observe(mat *certenv.Material, cfg *tls.Config, serverName string) (served, *tls.Certificate) {
	var c *tls.Certificate
	var err error
	done := make(chan struct{})
	go func() {
		defer close(done)
		c, err = selectCert(cfg, serverName)
	}()
	synctest.Wait()
	select {
	case <-done:
		return classify(mat, c, err), c
	default:
		return served{what: "blocked"}, nil
	}
}

// handshake performs one real TLS handshake against cfg over an in-memory connection
// and returns the leaf the client saw.
func handshake(cfg *tls.Config) ([]byte, error) {
	a, b := memnet.Pair(memnet.TCPAddr("10.0.0.1", 443), memnet.TCPAddr("10.0.0.2", 50000))
	srv := tls.Server(a, cfg)
	cli := tls.Client(b, &tls.Config{InsecureSkipVerify: true, ServerName: "localhost", CurvePreferences: []tls.CurveID{tls.X25519}})
	var serr, cerr error
	sd, cd := make(chan struct{}), make(chan struct{})
	go func() { serr = srv.Handshake(); close(sd) }()
	go func() { cerr = cli.Handshake(); close(cd) }()
	synctest.Wait()
	defer func() { a.Close(); b.Close(); synctest.Wait() }()
	select {
	case <-cd:
	default:
		return nil, fmt.Errorf("client handshake did not finish")
	}
	select {
	case <-sd:
	default:
		return nil, fmt.Errorf("server handshake did not finish")
	}
	if cerr != nil {
		return nil, fmt.Errorf("client: %v (server: %v)", cerr, serr)
	}
	if serr != nil {
		return nil, fmt.Errorf("server: %v", serr)
	}
	pcs := cli.ConnectionState().PeerCertificates
	if len(pcs) == 0 {
		return nil, fmt.Errorf("no peer certificate")
	}
	return pcs[0].Raw, nil
}

// ---- one execution ----------------------------------------------------------------

type history struct {
	layout certenv.Layout
	steps  []certenv.Step
	merge  bool // inotify merges every event identical to the unread queue tail (true) or none (false)
}

func (h history) String() string {
	var s []string
	for _, x := range h.steps {
		s = append(s, x.String())
	}
	m := "no-merge"
	if h.merge {
		m = "merge"
	}
	return fmt.Sprintf("%s[%s] %s", h.layout, m, strings.Join(s, " ; "))
}

func (h history) supportedPrefix(n int) bool {
	for _, s := range h.steps[:n] {
		if !s.Supported() {
			return false
		}
	}
	return true
}

func (h history) styles() string {
	set := map[string]bool{}
	for _, s := range h.steps {
		set[s.Style()] = true
	}
	var l []string
	for k := range set {
		l = append(l, k)
	}
	sort.Strings(l)
	return strings.Join(l, "+")
}

type runOpts struct {
	mat        *certenv.Material
	tmp        string
	handshakes bool      // real TLS handshakes at the quiescent points (used on the undisturbed schedule of every history)
	selfcheck  bool      // compare the model's idea of the disk with the real files after every step
	acts       *[]string // if set: receives every action of the execution with what the proxy presented after it
	steadyOnly bool      // no updater step before Start has added both watches (used to look for a simpler witness)
	prune      bool
	stats      *stats
}

type stats struct {
	executions, actions, observations, quiescent, handshakes, deliveries, steps, convChecks, lastGoodChecks int64
	endDeadlocks                                                                                            int64
	feat                                                                                                    map[string]struct{}
}

var execSeq int

func viol(out *mc.Outcome, sig string, format string, a ...any) {
	for _, s := range out.Sigs {
		if s == sig {
			return
		}
	}
	out.Sigs = append(out.Sigs, sig)
	out.Violations = append(out.Violations, fmt.Sprintf(format, a...))
}

func runOne(t *testing.T, h history, c *mc.Chooser, o runOpts) (out mc.Outcome) {
	execSeq++
	dir := filepath.Join(o.tmp, fmt.Sprintf("x%d", execSeq))
	if err := os.Mkdir(dir, 0o700); err != nil {
		panic(mc.HarnessError{Msg: err.Error()})
	}
	defer os.RemoveAll(dir)
	var herr *mc.HarnessError
	harness := func(format string, a ...any) {
		if herr == nil {
			herr = &mc.HarnessError{Msg: fmt.Sprintf(format, a...)}
		}
	}
	res := runBubble(t, func() {
		disk, err := certenv.NewDisk(dir, h.layout, o.mat)
		if err != nil {
			harness("layout: %v", err)
			return
		}
		model := certenv.New(h.layout)
		g := &gates{passed: map[string]int{}}
		e := &env{m: model, d: disk, g: g}
		vhook.SetHandler(func(site string, key any) {
			if site == "vsync.Unlock" {
				return // lock releases are not scheduling points of this exploration
			}
			extra := ""
			if site == siteRead {
				if n, ok := key.(string); ok {
					extra = e.modelName(n)
				}
			}
			g.point(site, extra)
		})
		defer vhook.SetHandler(nil)
		vfs.SetBackend(e)
		defer vfs.SetBackend(nil)
		// the binary's -verbose switch for half of the histories (by the parity of the history's text, so that a history
		// always runs the same way): it may only add log lines. The logger formats what it is given.
		certwatcher.Logger = log.New(formattingSink{}, "", 0)
		certwatcher.VerboseLogs = len(h.String())%2 == 0

		// a third of the histories name their files in a legal spelling that is not the cleaned one ("dir/./tls.crt");
		// fsnotify (the real one and the fake) reports events under the cleaned name
		certArg, keyArg := disk.Path(certenv.Cert), disk.Path(certenv.Key)
		if len(h.String())%3 == 1 {
			certArg = filepath.Dir(certArg) + "/./" + filepath.Base(certArg)
			keyArg = filepath.Dir(keyArg) + "//" + filepath.Base(keyArg)
		}
		cw, err := certwatcher.New(certArg, keyArg)
		if err != nil || cw == nil {
			viol(&out, "new-failed", "%s: certwatcher.New fails on a valid initial pair: %v", h, err)
			out.Obs = "new-failed"
			return
		}
		cfg := fingerproxy.VerifC14DefaultTLSConfig(cw)
		ctx, cancel := context.WithCancel(context.Background())
		g.mu.Lock()
		g.on = true
		g.mu.Unlock()
		defer func() {
			g.open()
			cancel()
			synctest.Wait()
		}()

		var (
			obs            strings.Builder
			idx            int // next step
			started        bool
			startReturned  bool
			inDelay        bool
			devs           int
			stepInStartup  bool
			stepDuringLoad bool
			deliverBlocked bool
			inflight       *certenv.Event
			last           served
		)
		merge := func() bool { return h.merge }

		// What GetCertificate hands out is held by crypto/tls for the rest of that handshake (the certificate goes out
		// in one flight, the key is used in a later one): a handshake concurrent with later updates keeps the pointer
		// of an earlier observation. Every structure handed out must therefore keep reading as the pair it was.
		type heldPair struct {
			c    *tls.Certificate
			s    served
			when string
		}
		var held []heldPair
		check := func(when string) {
			o.stats.observations++
			s, cptr := observe(o.mat, cfg, "localhost")
			last = s
			// a client that names no server (connects by address) is presented the same pair
			if s0, _ := observe(o.mat, cfg, ""); s0.code() != s.code() && s0.what != "blocked" && s.what != "blocked" {
				viol(&out, "pair-depends-on-server-name", "%s: after %s a client that sends server_name is presented %s, a client that sends none is presented %s", h, when, s.code(), s0.code())
			}
			for _, hp := range held {
				if now := classify(o.mat, hp.c, nil); now.code() != hp.s.code() {
					viol(&out, "handed-out-pair-changed", "%s: the certificate structure handed to a handshake after %s read as pair %s then; after %s the same structure reads as %s: a handshake still in flight presents a certificate and uses a key that were never handed out together",
						h, hp.when, hp.s.code(), when, now.code())
					break
				}
			}
			if cptr != nil && s.what == "pair" && (len(held) == 0 || held[len(held)-1].c != cptr) {
				held = append(held, heldPair{cptr, s, when})
			}
			obs.WriteString(s.code())
			obs.WriteByte(' ')
			switch s.what {
			case "blocked":
				// GetCertificate waits for the watcher's lock. No gate lies inside a locked section, so with every goroutine
				// parked or idle the lock is simply held - for good
				viol(&out, "handshakes-block", "%s: after %s GetCertificate does not return: the watcher's lock is held and nothing releases it (every handshake from now on waits)", h, when)
				return
			case "nil", "error", "empty", "unknown":
				viol(&out, "no-certificate|what="+s.what, "%s: after %s the proxy presents no usable certificate (%s %s): handshakes fail", h, when, s.what, s.detail)
				return
			}
			if s.cg != s.kg {
				viol(&out, "mismatched-pair", "%s: after %s the proxy presents certificate g%d with private key g%d", h, when, s.cg, s.kg)
				return
			}
			e.mu.Lock()
			co := model.Coexisted[s.cg]
			e.mu.Unlock()
			if !co {
				how := "other"
				if stepDuringLoad {
					how = "update-between-cert-read-and-key-read"
				}
				viol(&out, "torn-pair|how="+how, "%s: after %s the proxy presents the pair g%d, but certificate g%d and key g%d were never on disk at the same time in this history", h, when, s.cg, s.cg, s.kg)
			}
		}

		quiescent := func(when string) {
			// every event has been handled and the watcher is idle
			o.stats.quiescent++
			if last.what != "pair" || last.cg != last.kg {
				return // already reported by check
			}
			phase := "steady"
			if stepInStartup {
				phase = "startup-window"
			}
			e.mu.Lock()
			valid, lastValid := model.ValidPair(), model.LastValid
			e.mu.Unlock()
			if !h.supportedPrefix(idx) {
				return
			}
			if valid != 0 {
				o.stats.convChecks++
				if last.cg != valid {
					sig := "stale-pair|phase=" + phase
					if phase == "steady" {
						sig += "|styles=" + h.styles()
					}
					viol(&out, sig,
						"%s: %s: every filesystem event has been handled, the disk holds the valid pair g%d, but the proxy still presents g%d (no pending event will ever reload it)", h, when, valid, last.cg)
				}
			} else if devs == 0 && !stepInStartup {
				o.stats.lastGoodChecks++
				if last.cg != lastValid {
					viol(&out, "not-last-good-pair", "%s: %s: the files are invalid now; the last valid pair on disk was g%d and every event was handled before the next step, but the proxy presents g%d", h, when, lastValid, last.cg)
				}
			}
			if o.handshakes && devs == 0 {
				o.stats.handshakes++
				leaf, err := handshake(cfg)
				if err != nil {
					viol(&out, "handshake-failed", "%s: %s: a real TLS handshake fails: %v", h, when, err)
				} else if !bytes.Equal(leaf, o.mat.CertDER[last.cg]) {
					harness("%s: %s: real handshake leaf differs from the certificate-selection emulation (g%d)", h, when, last.cg)
				}
			}
		}

		// snapshot of what a goroutine has read when it parks at a site: between the reads it holds the
		// certificate file as it is now; before the swap it has just read the key file as it is now.
		snap := func(p *parked) string {
			e.mu.Lock()
			defer e.mu.Unlock()
			switch p.site {
			case siteHandle:
				return p.site + "{ev=" + e.lastEv + "}"
			case siteBetween:
				cc, ok := model.Disk(certenv.Cert)
				return fmt.Sprintf("%s{c=%v/%v}", p.site, cc, ok)
			case siteSwap:
				kc, ok := model.Disk(certenv.Key)
				return fmt.Sprintf("%s{k=%v/%v}", p.site, kc, ok)
			}
			if p.site == siteAdd {
				return p.site + "{" + p.extra + "}"
			}
			// any other gate (e.g. in front of a direct os.ReadFile of edited code): whatever the goroutine
			// has read since its previous gate is part of the disk as it is now
			cc, ok1 := model.Disk(certenv.Cert)
			kc, ok2 := model.Disk(certenv.Key)
			return fmt.Sprintf("%s{%s c=%v/%v k=%v/%v}", p.site, p.extra, cc, ok1, kc, ok2)
		}
		var (
			lastSeq int     // highest park sequence number already attributed
			cont    *parked // the goroutine the watcher side worked on last (continuing it is not a deviation)
			precise = true  // every parked goroutine's history is known (needed for the canonical state key)
		)
		// attribute: after an action, give every new park its note. from = the park released by the action
		// (nil for deliver / start / updater step).
		attribute := func(ps []*parked, from *parked, fresh bool) {
			var nw []*parked
			for _, p := range ps {
				if p.seq > lastSeq {
					nw = append(nw, p)
				}
			}
			for _, p := range ps {
				if p.seq > lastSeq {
					lastSeq = p.seq
				}
			}
			switch {
			case len(nw) == 0:
				if from != nil && cont == from {
					cont = nil
				}
			case len(nw) == 1 && (from != nil || fresh):
				p := nw[0]
				if from != nil && p.site != siteHandle {
					p.note = from.note + snap(p)
				} else {
					p.note = snap(p)
				}
				cont = p
			default:
				// goroutines the harness cannot tell apart (only code that handles events concurrently gets here)
				precise = false
				for _, p := range nw {
					p.note = snap(p)
				}
				cont = nw[0]
			}
		}

		check("start")
		for {
			ps := g.list()
			watchBusy := false
			for _, p := range ps {
				if p.inWatch {
					watchBusy = true
				}
			}
			type option struct {
				label string
				p     *parked
				kind  int // 0 release, 1 deliver, 2 start, 3 updater step
			}
			var wopts []option
			if !started {
				wopts = append(wopts, option{label: "W:start", kind: 2})
			}
			for _, p := range ps { // the goroutine worked on last comes first
				if p == cont {
					wopts = append(wopts, option{label: "W:" + p.site, p: p, kind: 0})
				}
			}
			for _, p := range ps {
				if p != cont {
					wopts = append(wopts, option{label: "W:" + p.site, p: p, kind: 0})
				}
			}
			e.mu.Lock()
			pending := inflight != nil || model.Pending()
			e.mu.Unlock()
			if started && pending && !watchBusy && !deliverBlocked {
				wopts = append(wopts, option{label: "W:deliver", kind: 1})
			}
			uopt := idx < len(h.steps)
			if o.steadyOnly && uopt {
				if !started {
					uopt = false
				}
				for _, p := range ps {
					if strings.HasPrefix(p.note, siteAdd+"{") {
						uopt = false
					}
				}
			}
			if len(wopts) == 0 && !uopt {
				break
			}
			if inDelay && !uopt {
				inDelay = false
			}
			var opts []option
			var costs []int
			if inDelay {
				opts = append(opts, option{label: "U:" + h.steps[idx].String(), kind: 3})
				costs = append(costs, 0)
				for _, w := range wopts {
					opts = append(opts, w)
					costs = append(costs, 0)
				}
			} else {
				// continuing the goroutine the watcher side worked on last is free, switching away from it is a
				// deviation; when it is gone (it finished), every watcher-side option is free
				contParked := false
				for _, w := range wopts {
					if w.p != nil && w.p == cont {
						contParked = true
					}
				}
				for _, w := range wopts {
					opts = append(opts, w)
					if !contParked || w.p == cont {
						costs = append(costs, 0)
					} else {
						costs = append(costs, 1)
					}
				}
				if uopt {
					opts = append(opts, option{label: "U:" + h.steps[idx].String(), kind: 3})
					if len(wopts) > 0 {
						costs = append(costs, 1)
					} else {
						costs = append(costs, 0)
					}
				}
			}
			ch := 0
			if len(opts) > 1 {
				labels := make([]string, len(opts))
				for i := range opts {
					labels[i] = opts[i].label
				}
				ch = c.Choose(labels, costs)
			}
			op := opts[ch]
			o.stats.actions++
			when := op.label
			var from *parked
			fresh := false
			switch op.kind {
			case 3:
				if len(wopts) > 0 && !inDelay {
					inDelay = true
					devs++
				}
				// startup window: Start has not been called yet, or its goroutine is still adding the watches
				if !started {
					stepInStartup = true
				}
				for _, p := range ps {
					if strings.HasPrefix(p.note, siteAdd+"{") {
						stepInStartup = true
					}
				}
				for _, p := range ps {
					if p.site == siteBetween || (p.site == siteRead && strings.Count(p.note, siteRead+"{") >= 2) {
						stepDuringLoad = true
					}
				}
				s := h.steps[idx]
				idx++
				o.stats.steps++
				e.mu.Lock()
				r := model.Apply(s, merge)
				e.mu.Unlock()
				derr := disk.Do(s)
				if (r != "") != (derr != nil) {
					harness("%s: step %v: model says %q, file system says %v", h, s, r, derr)
					return
				}
				for _, f := range []certenv.File{certenv.Cert, certenv.Key} {
					if !o.selfcheck {
						break
					}
					rc, rok, rerr := disk.Read(f)
					e.mu.Lock()
					mc_, mok := model.Disk(f)
					e.mu.Unlock()
					if rerr != nil || rok != mok || (rok && rc != mc_) {
						harness("%s: after step %v the model and the disk disagree on %v: model %v/%v disk %v/%v %v", h, s, f, mc_, mok, rc, rok, rerr)
						return
					}
				}
			case 2:
				inDelay = false
				started = true
				fresh = true
				go func() {
					cw.Start(ctx)
					startReturned = true
				}()
			case 0:
				inDelay = false
				deliverBlocked = false
				from = op.p
				g.release(op.p)
			case 1:
				inDelay = false
				e.mu.Lock()
				if inflight == nil {
					if evn, ok := model.Next(); ok {
						inflight = &evn
					}
				}
				w := e.w
				e.mu.Unlock()
				if inflight == nil || w == nil || w.IsClosed() {
					deliverBlocked = true
					break
				}
				e.mu.Lock()
				e.lastEv = inflight.String()
				e.mu.Unlock()
				select {
				case w.Events <- vfs.Event{Name: e.realName(inflight.Name), Op: vfs.Op(inflight.Op)}:
					o.stats.deliveries++
					inflight = nil
					fresh = true
				default:
					deliverBlocked = true // nobody receives from Events: the event stays with fsnotify's reader
				}
			}
			synctest.Wait()
			ps = g.list()
			attribute(ps, from, fresh)
			check(when)
			if o.acts != nil {
				e.mu.Lock()
				dc, _ := model.Disk(certenv.Cert)
				dk, _ := model.Disk(certenv.Key)
				*o.acts = append(*o.acts, fmt.Sprintf("%s  => disk(cert=%v,key=%v) presented=%s", when, dc, dk, last.code()))
				e.mu.Unlock()
			}
			// quiescent?
			e.mu.Lock()
			pending = inflight != nil || model.Pending()
			e.mu.Unlock()
			if started && len(ps) == 0 && (!pending || deliverBlocked) {
				// The statement sets no deadline for picking up an update: an implementation may reload on a timer
				// (debounce, retry). Fake time passes before the state is judged as settled; a reload that a timer
				// starts shows as a goroutine parked at a gate (the exploration goes on) or has run to its end.
				time.Sleep(30 * time.Second)
				synctest.Wait()
				ps = g.list()
				attribute(ps, nil, true)
				check(when)
				if len(ps) == 0 {
					quiescent("after " + when)
				}
			}
			if o.prune && precise && len(out.Violations) == 0 {
				var sb strings.Builder
				infl := "-"
				if inflight != nil {
					infl = inflight.String()
				}
				e.mu.Lock()
				fmt.Fprintf(&sb, "i%d d%v st%v su%v dl%v db%v sr%v in%s a%d|%s|%s|", idx, inDelay, started, stepInStartup, stepDuringLoad, deliverBlocked, startReturned, infl, e.addsDone, last.code(), model.Key())
				e.mu.Unlock()
				for _, p := range ps {
					fmt.Fprintf(&sb, "[%s w%v c%v]", p.note, p.inWatch, p == cont)
				}
				if c.Seen(sb.String()) {
					obs.WriteString("~pruned")
					break
				}
			}
		}
		out.Obs = strings.TrimSpace(obs.String())
		if o.stats.feat != nil {
			e.mu.Lock()
			feat := fmt.Sprintf("%s|%s|served=%s|valid=%d|lastvalid=%d|dev=%d|startup=%v|midload=%v|merges=%v|sites=%d/%d/%d/%d", h.layout, h.styles(), last.code(), model.ValidPair(), model.LastValid, devs, stepInStartup, stepDuringLoad, model.Merges > 0,
				g.passed[siteAdd], g.passed[siteHandle], g.passed[siteBetween], g.passed[siteSwap])
			e.mu.Unlock()
			o.stats.feat[feat] = struct{}{}
		}
	})
	o.stats.executions++
	if herr != nil {
		panic(*herr)
	}
	if res.Panic != nil {
		if he, ok := res.Panic.(mc.HarnessError); ok {
			panic(he)
		}
		viol(&out, "panic", "%s: panic: %v\n%s", h, res.Panic, res.Stack)
	}
	if res.Deadlock != "" {
		o.stats.endDeadlocks++ // shutdown is not part of C14
	}
	return out
}

// ---- enumeration of histories ---------------------------------------------------------

// canonical: generations 2 and 3 are interchangeable labels (generation 1 is the initial pair);
// only histories whose first generation-bearing step uses g2 are explored.
func canonical(steps []certenv.Step) bool {
	for _, s := range steps {
		switch s.Op {
		case certenv.OpFull, certenv.OpRename, certenv.OpSwap:
			return s.Gen == 2
		}
	}
	return true
}

func hasInPlace(steps []certenv.Step) bool {
	for _, s := range steps {
		if s.Style() == "inplace" {
			return true
		}
	}
	return false
}

func sequences(alpha []certenv.Step, depth int, f func([]certenv.Step)) {
	var rec func(cur []certenv.Step)
	rec = func(cur []certenv.Step) {
		if len(cur) > 0 {
			f(append([]certenv.Step(nil), cur...))
		}
		if len(cur) == depth {
			return
		}
		for _, a := range alpha {
			rec(append(cur, a))
		}
	}
	rec(nil)
}

func tmpBase() string {
	for _, d := range []string{"/dev/shm", os.TempDir()} {
		if p, err := os.MkdirTemp(d, "verif-c14-"); err == nil {
			return p
		}
	}
	panic("no temp dir")
}

func parseSig(s string) map[string]any {
	parts := strings.Split(s, "|")
	m := map[string]any{"kind": parts[0]}
	for _, p := range parts[1:] {
		if k, v, ok := strings.Cut(p, "="); ok {
			m[k] = v
		}
	}
	return m
}

// ---- model validation against real inotify ------------------------------------------------

func traceString(evs []certenv.Event) string {
	var s []string
	for _, e := range evs {
		s = append(s, e.String())
	}
	return strings.Join(s, ",")
}

// allowed returns every event sequence the model allows for op s in state m (all merge choices),
// the model's error class for the op, and advances m (events drained).
func allowed(m *certenv.Model, s certenv.Step) (map[string]bool, string) {
	set := map[string]bool{}
	errc := ""
	if s.Op == certenv.OpAdd {
		errc = m.AddWatch(certenv.Name(s.F))
		set[""] = true
		return set, errc
	}
	// enumerate merge decisions as bit strings
	for bits := 0; bits < 16; bits++ {
		cm := m.Clone()
		asked := 0
		merge := func() bool {
			b := bits>>asked&1 == 1
			asked++
			return b
		}
		errc = cm.Apply(s, merge)
		set[traceString(cm.Drain())] = true
		if asked > 4 {
			panic("more than 4 merge decisions in one step")
		}
	}
	m.Apply(s, nil)
	m.Drain()
	return set, errc
}

func validateModel(rep *ev.Report, mat *certenv.Material, tmp string, depth int, shard, of int, deadline time.Time) {
	n := 0
	k := 0
	bases := []string{tmp}
	if d, err := os.MkdirTemp(os.TempDir(), "verif-c14-real-"); err == nil && !strings.HasPrefix(tmp, os.TempDir()) {
		bases = append(bases, d) // a second file system (the temp dir's; tmp itself is tmpfs)
		defer os.RemoveAll(d)
	}
	distinct := map[string]struct{}{}
	bad := 0
	for _, l := range []certenv.Layout{certenv.Plain, certenv.K8s} {
		alpha := certenv.Alphabet(l, []int{2, 3}, certenv.AlphaOpt{Unlink: true, Halves: true, Garbage: true})
		alpha = append(alpha, certenv.Step{Op: certenv.OpAdd, F: certenv.Cert}, certenv.Step{Op: certenv.OpAdd, F: certenv.Key})
		sequences(alpha, depth, func(steps []certenv.Step) {
			k++
			if k%of != shard || bad > 5 {
				return
			}
			if len(steps) < depth && depth > 1 {
				// every proper prefix is checked as part of its extensions (operation by operation)
				return
			}
			if time.Now().After(deadline) {
				rep.NotExhaustive("time budget reached during model validation")
				bad = 100
				return
			}
			base := bases[k/of%len(bases)]
			dir := filepath.Join(base, fmt.Sprintf("r%d", k))
			if err := os.Mkdir(dir, 0o700); err != nil {
				rep.HarnessError("realfs: %v", err)
				bad++
				return
			}
			tr, err := realfs.Run(dir, l, mat, steps)
			os.RemoveAll(dir)
			if err != nil {
				rep.HarnessError("realfs: %v: %v", steps, err)
				bad++
				return
			}
			m := certenv.New(l)
			m.AddWatch("cert")
			m.AddWatch("key")
			var sig []string
			for i, s := range steps {
				set, errc := allowed(m, s)
				got := traceString(tr[i].Events)
				if (errc != "") != (tr[i].Err != "") {
					rep.HarnessError("MODEL ERROR (not a property verdict): %s %v op %d %v: model error %q, real %q", l, steps, i, s, errc, tr[i].Err)
					bad++
					return
				}
				if !set[got] {
					rep.HarnessError("MODEL ERROR (not a property verdict): %s %v op %d %v: real fsnotify/inotify produced [%s], model allows %v", l, steps, i, s, got, keys(set))
					bad++
					return
				}
				sig = append(sig, got)
			}
			n++
			distinct[l.String()+"|"+strings.Join(sig, ";")] = struct{}{}
			if n <= 2 {
				rep.Sample(map[string]any{"kind": "real-inotify trace", "layout": l.String(), "history": fmt.Sprint(steps), "events_per_op": sig})
			}
		})
	}
	rep.Add("traces_validated_against_impl", int64(n))
	for d := range distinct {
		rep.Note("real_event_trace_variants_seen_timing_dependent", mc.Hash64(d))
	}
}

func keys(m map[string]bool) []string {
	var k []string
	for s := range m {
		k = append(k, "["+s+"]")
	}
	sort.Strings(k)
	return k
}

// ---- replay of a reported violation -----------------------------------------------------------

// replayFile re-executes the execution stored in a /verif/replay/C14-*.json file (bin/check --replay).
func replayFile(t *testing.T, rep *ev.Report, path string, mat *certenv.Material, tmp string) {
	b, err := os.ReadFile(path)
	if err != nil {
		rep.HarnessError("replay: %v", err)
		return
	}
	var f struct {
		Replay struct {
			Layout  string   `json:"layout"`
			History []string `json:"history"`
			Merge   bool     `json:"inotify_merge_policy"`
			Choices []int    `json:"choices"`
			Steady  bool     `json:"no_update_during_startup"`
		} `json:"replay"`
	}
	if err := json.Unmarshal(b, &f); err != nil {
		rep.HarnessError("replay: %v", err)
		return
	}
	h := history{merge: f.Replay.Merge}
	if f.Replay.Layout == "k8s" {
		h.layout = certenv.K8s
	}
	byName := map[string]certenv.Step{}
	for _, st := range certenv.Alphabet(h.layout, []int{2, 3}, certenv.AlphaOpt{Unlink: true, Halves: true, Garbage: true}) {
		byName[st.String()] = st
	}
	byName[certenv.Step{Op: certenv.OpPartial, F: certenv.Cert, Gen: 3}.String()] = certenv.Step{Op: certenv.OpPartial, F: certenv.Cert, Gen: 3}
	byName[certenv.Step{Op: certenv.OpPartial, F: certenv.Key, Gen: 3}.String()] = certenv.Step{Op: certenv.OpPartial, F: certenv.Key, Gen: 3}
	for _, n := range f.Replay.History {
		st, ok := byName[n]
		if !ok {
			rep.HarnessError("replay: unknown step %q", n)
			return
		}
		h.steps = append(h.steps, st)
	}
	st := &stats{feat: map[string]struct{}{}}
	var acts []string
	out, trace := mc.Replay(f.Replay.Choices, func(c *mc.Chooser) mc.Outcome {
		return runOne(t, h, c, runOpts{mat: mat, tmp: tmp, handshakes: true, selfcheck: true, stats: st, acts: &acts, steadyOnly: f.Replay.Steady})
	})
	for _, a := range acts {
		t.Log(a)
	}
	rep.Add("evaluations", 1)
	rep.Add("states", st.actions)
	rep.Add("transitions", st.actions)
	rep.Note("distinct_nontrivial", "replay")
	rep.Sample(map[string]any{"history": h.String(), "schedule": trace, "presented_after_each_action": out.Obs})
	for i, v := range out.Violations {
		rep.Violate(parseSig(out.Sigs[i]), f.Replay, "%s", v)
	}
	t.Logf("replayed %s: schedule %v: presented %s: %d violation(s) %v", h, trace, out.Obs, len(out.Violations), out.Sigs)
}

// ---- the check ----------------------------------------------------------------------------

// pass: one family of histories explored by a tier
type pass struct {
	name       string
	depth      int  // histories of 1..depth steps (onlyFull: exactly depth steps)
	onlyFull   bool // shorter histories are covered by another pass
	opt        certenv.AlphaOpt
	mergeDepth int // histories of up to this many steps are also explored under the "always merge" inotify policy
	bound      int // deviation bound
}

type tierCfg struct {
	passes     []pass
	valDepth   int // model validation depth
	handshakes bool
	budget     time.Duration
}

func (p pass) describe() string {
	a := "in-place truncate / full write g"
	if p.opt.Halves {
		a += " / half write"
	}
	if p.opt.Garbage {
		a += " / garbage"
	}
	a += ", rename of a new file (g) over f"
	if p.opt.Unlink {
		a += ", unlink f"
	}
	a += " (plain layout); the same in-place steps and kubelet-style directory swap to g with both unlink orders (k8s layout)"
	l := fmt.Sprintf("1..%d", p.depth)
	if p.onlyFull {
		l = fmt.Sprint(p.depth)
	}
	mp := "inotify merge policy never"
	if p.mergeDepth > 0 {
		mp += fmt.Sprintf(" (and always, for histories of <= %d steps that contain an in-place step)", p.mergeDepth)
	}
	return fmt.Sprintf("pass %q: histories of %s steps over {%s}, f in {cert,key}, g in {2,3} up to renaming g2<->g3; %s; <= %d deviations", p.name, l, a, mp, p.bound)
}

func TestCheck(t *testing.T) {
	rep := ev.New("C14", "model_checking")
	defer rep.Write()
	runtime.GOMAXPROCS(1) // one explorer goroutine at a time: hand-offs between goroutines stay on one thread
	shard, of := mc.ShardFromEnv()
	all := certenv.AlphaOpt{Unlink: true, Halves: true, Garbage: true}
	tc := tierCfg{valDepth: 2, handshakes: true, budget: 75 * time.Second, passes: []pass{
		{name: "all-steps", depth: 2, opt: all, mergeDepth: 2, bound: 2},
		{name: "depth3", depth: 3, onlyFull: true, opt: certenv.AlphaOpt{Unlink: true}, mergeDepth: 0, bound: 2},
	}}
	if ev.Thorough() {
		tc = tierCfg{valDepth: 3, handshakes: true, budget: 13 * time.Minute, passes: []pass{
			{name: "all-steps", depth: 3, opt: all, mergeDepth: 3, bound: 3},
			{name: "depth4", depth: 4, onlyFull: true, opt: certenv.AlphaOpt{}, mergeDepth: 0, bound: 2},
		}}
	}
	if v := os.Getenv("C14_PASSES"); v != "" { // debugging: number of passes to run
		n := 0
		fmt.Sscan(v, &n)
		tc.passes = tc.passes[:n]
	}
	start := time.Now()
	deadline := start.Add(tc.budget)
	mat := certenv.NewMaterial(3)
	tmp := tmpBase()
	defer os.RemoveAll(tmp)

	var pd []string
	for _, p := range tc.passes {
		pd = append(pd, p.describe())
	}
	rep.Info["rule"] = "execution = (layout, update history, inotify merge policy) x one interleaving of updater steps with the watcher's progress points (Start, Watcher.Add, event delivery, handleEvent entry, between the two file reads, before the swap); every interleaving within the deviation bound is executed (a deviation = one period during which the updater runs although the watcher has work, or a switch between concurrently parked watcher goroutines); " + strings.Join(pd, "; ") + "; distinct_nontrivial = distinct (layout, styles, final presented pair, final disk pair, deviations used, update-in-startup-window, update-during-load, merges happened, gate pass counts) signatures of executions"
	rep.Info["passes"] = pd
	rep.Info["model_validation_depth"] = tc.valDepth
	rep.Assume(
		"interleavings are controlled at the gates (Watcher.Add, handleEvent entry, between the certificate read and the key read of tls.LoadX509KeyPair, before the swap); code between two gates runs atomically with respect to updater steps; an updater step (one open+truncate+write, one rename, one directory swap) is atomic",
		"inotify/fsnotify are represented by verif/ref/certenv, validated operation-by-operation against the real kernel and the real fsnotify v1.7.0 for every operation history up to the stated depth (on tmpfs and on the temp dir's file system), not beyond; queue overflow (IN_Q_OVERFLOW) is modelled only as an error report on Errors (part C), not as lost events",
		"inotify merging of identical adjacent unread events is explored as a per-execution policy (never / always), not per event",
		"tls.LoadX509KeyPair is replaced by its own std-lib body plus one scheduling point; sync.RWMutex by an exclusive channel lock",
		"the leaf a TLS client sees is computed by an emulation of crypto/tls certificate selection on the tls.Config built by the binary's defaultTLSConfig; it is cross-checked by real TLS handshakes at every quiescent point of the undisturbed schedules",
		"rename of a new file over a watched path that is itself a symlink, and unlink-then-create, are not among the three styles of the statement: the first is not explored, the second only for the safety clauses",
	)

	if rp := os.Getenv("VERIF_REPLAY"); rp != "" {
		replayFile(t, rep, rp, mat, tmp)
		return
	}

	// Part A: the model against the real thing
	func() {
		defer func() {
			if r := recover(); r != nil {
				rep.HarnessError("model validation: %v", r)
			}
		}()
		validateModel(rep, mat, tmp, tc.valDepth, shard, of, start.Add(tc.budget/3))
	}()

	// Part C: error reports from fsnotify between updates
	errorReports(t, rep, mat, tmp, shard, of)

	// Part D: updates that change only the rest of the certificate file
	chainUpdates(t, rep, tmp, shard, of)

	// Part B: exploration
	st := &stats{feat: map[string]struct{}{}}
	opts := runOpts{mat: mat, tmp: tmp, prune: true, stats: st}
	type hcase struct {
		history
		bound int
		pass  string
	}
	var hists []hcase
	for _, ps := range tc.passes {
		for _, l := range []certenv.Layout{certenv.Plain, certenv.K8s} {
			alpha := certenv.Alphabet(l, []int{2, 3}, ps.opt)
			sequences(alpha, ps.depth, func(steps []certenv.Step) {
				if !canonical(steps) || (ps.onlyFull && len(steps) != ps.depth) {
					return
				}
				hists = append(hists, hcase{history{layout: l, steps: steps}, ps.bound, ps.name})
				if hasInPlace(steps) && len(steps) <= ps.mergeDepth {
					hists = append(hists, hcase{history{layout: l, steps: steps, merge: true}, ps.bound, ps.name})
				}
			})
		}
	}
	// shortest histories first, so that a violation is reported with its shortest witness
	sort.SliceStable(hists, func(i, j int) bool { return len(hists[i].steps) < len(hists[j].steps) })
	rep.Info["histories_total"] = len(hists)
	type found struct {
		h history
		f mc.Found
	}
	var founds []found
	seenSig := map[string]bool{}
	var schedules, points, rechecked, pruned, states int64
	done := 0
	capped := false
	only := os.Getenv("C14_ONLY") // debugging: explore only histories whose description contains this text
	for k, hc := range hists {
		h := hc.history
		if k%of != shard {
			continue
		}
		if only != "" && !strings.Contains(h.String(), only) {
			continue
		}
		if time.Now().After(deadline) {
			capped = true
			break
		}
		ev.Journal("history %d %s", k, h)
		e := &mc.Explorer{Bound: hc.bound, Prune: opts.prune, Deadline: deadline, RecheckN: 50}
		func() {
			defer func() {
				if r := recover(); r != nil {
					if he, ok := r.(mc.HarnessError); ok {
						rep.HarnessError("%s: %v", h, he)
						return
					}
					panic(r)
				}
			}()
			first := true
			e.Explore(func(c *mc.Chooser) mc.Outcome {
				o := opts
				// the first execution of a history is its undisturbed schedule (every choice at its default):
				// there the leaf is also observed by real TLS handshakes and the model's disk is compared with the real one
				o.handshakes, o.selfcheck = first && tc.handshakes, first
				first = false
				return runOne(t, h, c, o)
			})
		}()
		done++
		schedules += int64(e.Schedules)
		points += int64(e.Points)
		rechecked += int64(e.Rechecked)
		pruned += int64(e.Pruned)
		states += int64(e.States)
		rep.SetMax("max_choice_points_in_one_execution", int64(e.MaxDepth))
		if e.Capped && len(e.Found) < 20 {
			capped = true
		}
		for _, d := range e.Diverged {
			rep.HarnessError("non-deterministic observation in %s: %s", h, d)
		}
		for _, f := range e.Found {
			if seenSig[f.Sig] {
				continue
			}
			seenSig[f.Sig] = true
			founds = append(founds, found{h, f})
		}
		if (done == 1 || done%97 == 0) && len(e.SampleRuns) > 0 {
			// the last sample run kept by the explorer uses the whole deviation budget
			rep.Sample(map[string]any{"kind": "explored execution (labels of the choices taken)", "history": h.String(), "schedule": e.SampleRuns[len(e.SampleRuns)-1]})
		}
		if len(rep.HarnessErrors) > 5 {
			break
		}
	}
	if capped {
		rep.NotExhaustive(fmt.Sprintf("time budget reached after %d of this shard's histories", done))
	}
	// confirm and report
	confirm := runOpts{mat: mat, tmp: tmp, handshakes: tc.handshakes, selfcheck: true, prune: false, stats: &stats{}}
	for _, fd := range founds {
		// a witness without an update in the startup window, if there is one for the same signature, is easier to read
		func() {
			defer func() { recover() }()
			so := confirm
			so.steadyOnly = true
			se := &mc.Explorer{Bound: 2, Deadline: time.Now().Add(20 * time.Second), RecheckN: 1 << 30}
			se.Explore(func(c *mc.Chooser) mc.Outcome { return runOne(t, fd.h, c, so) })
			for _, f := range se.Found {
				if f.Sig == fd.f.Sig {
					fd.f = f
					confirm.steadyOnly = true
					return
				}
			}
			confirm.steadyOnly = false
		}()
		okN := 0
		var acts []string
		for i := 0; i < 5; i++ {
			func() {
				defer func() { recover() }()
				acts = nil
				confirm.acts = &acts
				o, _ := mc.Replay(fd.f.Choices, func(c *mc.Chooser) mc.Outcome { return runOne(t, fd.h, c, confirm) })
				for _, s := range o.Sigs {
					if s == fd.f.Sig {
						okN++
						break
					}
				}
			}()
		}
		if okN != 5 {
			rep.HarnessError("violation did not reproduce 5/5 (%d): %s", okN, fd.f.What)
			continue
		}
		var steps []string
		for _, s := range fd.h.steps {
			steps = append(steps, s.String())
		}
		rep.Violate(parseSig(fd.f.Sig), map[string]any{"layout": fd.h.layout.String(), "history": steps, "inotify_merge_policy": fd.h.merge,
			"choices": fd.f.Choices, "choice_labels": fd.f.Trace, "actions": acts, "no_update_during_startup": confirm.steadyOnly,
			"legend": "U:<step> = the updater performs the step; W:start = Start is called; W:deliver = fsnotify hands the next queued event to Watch; W:<gate> = the watcher goroutine parked at <gate> runs on to its next gate (fsnotify.Add = before Watcher.Add, certwatcher.handleEvent = entry of handleEvent, tls.LoadX509KeyPair.betweenReads = certificate file read, key file not yet, certwatcher.ReadCertificate.beforeSwap = pair loaded and validated, not yet installed); after '=>' the disk contents and the generation the proxy presents after the action"}, "%s", fd.f.What)
	}
	rep.Add("histories", int64(done))
	rep.Add("schedules", schedules)
	rep.Add("evaluations", st.executions)
	rep.Add("states", states)
	rep.Add("transitions", st.actions)
	rep.Add("observations", st.observations)
	rep.Add("quiescent_points_checked", st.quiescent)
	rep.Add("convergence_assertions", st.convChecks)
	rep.Add("last_good_assertions", st.lastGoodChecks)
	rep.Add("real_tls_handshakes", st.handshakes)
	rep.Add("events_delivered", st.deliveries)
	rep.Add("update_steps_executed", st.steps)
	rep.Add("rechecked", rechecked)
	rep.Add("pruned_executions", pruned)
	rep.Add("end_of_execution_deadlocks_ignored", st.endDeadlocks)
	for f := range st.feat {
		rep.Note("distinct_nontrivial", mc.Hash64(f))
	}
	_ = points
}
