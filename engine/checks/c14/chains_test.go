//go:build verif

package c14

import (
	"bytes"
	"context"
	"fmt"
	"io"
	"log"
	"os"
	"path/filepath"
	"testing"
	"testing/synctest"
	"time"

	fingerproxy "github.com/wi1dcard/fingerproxy"
	"github.com/wi1dcard/fingerproxy/pkg/certwatcher"
	vfs "github.com/wi1dcard/fingerproxy/pkg/vfsnotify"
	"github.com/wi1dcard/fingerproxy/pkg/vhook"
	"verif/ev"
	"verif/mc"
	"verif/ref/certenv"
)

// Part D: "the new pair" is the new FILES. Updates that keep the leaf certificate and the key but change the rest of the
// certificate file (an intermediate added, replaced or dropped) are updates like any other: at the quiescent end of
// every sequence new handshakes are sent exactly the certificates the certificate file on disk holds.
//
// Sequences: every word of length <= 3 (quick) / 4 (thorough) over {2, 3, 1} x {a (the layout's atomic style:
// rename over both files / directory swap), i (both files rewritten in place)} - "update to chain generation g in
// style s" - for both layouts; generation 1 is the leaf alone, 2 and 3 add one and two further certificates.
func chainUpdates(t *testing.T, rep *ev.Report, tmp string, shard, of int) {
	depth := 3
	if ev.Thorough() {
		depth = 4
	}
	mat := certenv.NewChainMaterial(3)
	type upd struct {
		gen   int
		style byte
	}
	var alpha []upd
	for _, g := range []int{2, 3, 1} {
		for _, s := range []byte{'a', 'i'} {
			alpha = append(alpha, upd{g, s})
		}
	}
	job := 0
	var rec func(seq []upd)
	rec = func(seq []upd) {
		if len(seq) > 0 {
			for _, layout := range []certenv.Layout{certenv.Plain, certenv.K8s} {
				job++
				if job%of == shard {
					chainCase(t, rep, mat, tmp, layout, func() (steps [][]certenv.Step, names []string, last int) {
						for _, u := range seq {
							var st []certenv.Step
							switch {
							case u.style == 'i':
								st = []certenv.Step{{Op: certenv.OpFull, F: certenv.Cert, Gen: u.gen}, {Op: certenv.OpFull, F: certenv.Key, Gen: u.gen}}
							case layout == certenv.K8s:
								st = []certenv.Step{{Op: certenv.OpSwap, Gen: u.gen}}
							default:
								st = []certenv.Step{{Op: certenv.OpRename, F: certenv.Cert, Gen: u.gen}, {Op: certenv.OpRename, F: certenv.Key, Gen: u.gen}}
							}
							steps = append(steps, st)
							names = append(names, fmt.Sprintf("chain%d/%c", u.gen, u.style))
							last = u.gen
						}
						return
					})
				}
			}
		}
		if len(seq) == depth {
			return
		}
		for _, u := range alpha {
			if len(seq) > 0 && seq[len(seq)-1].gen == u.gen {
				continue // an update to what is there already is not an update
			}
			if len(seq) == 0 && u.gen == 1 {
				continue
			}
			rec(append(append([]upd{}, seq...), u))
		}
	}
	rec(nil)
}

func chainCase(t *testing.T, rep *ev.Report, mat *certenv.Material, tmp string, layout certenv.Layout, build func() ([][]certenv.Step, []string, int)) {
	steps, names, last := build()
	desc := fmt.Sprintf("layout %v, chain updates %v (same leaf, same key; chainN = leaf + N-1 further certificates; a = atomic style, i = in place)", layout, names)
	execSeq++
	dir := filepath.Join(tmp, fmt.Sprintf("c%d", execSeq))
	if err := os.Mkdir(dir, 0o700); err != nil {
		rep.HarnessError("%v", err)
		return
	}
	defer os.RemoveAll(dir)
	res := runBubble(t, func() {
		disk, err := certenv.NewDisk(dir, layout, mat)
		if err != nil {
			rep.HarnessError("chain updates: layout: %v", err)
			return
		}
		model := certenv.New(layout)
		g := &gates{passed: map[string]int{}}
		e := &env{m: model, d: disk, g: g}
		vhook.SetHandler(func(site string, key any) {})
		defer vhook.SetHandler(nil)
		vfs.SetBackend(e)
		defer vfs.SetBackend(nil)
		certwatcher.Logger = log.New(io.Discard, "", 0)
		certwatcher.VerboseLogs = false
		cw, err := certwatcher.New(disk.Path(certenv.Cert), disk.Path(certenv.Key))
		if err != nil || cw == nil {
			rep.HarnessError("chain updates: certwatcher.New: %v", err)
			return
		}
		cfg := fingerproxy.VerifC14DefaultTLSConfig(cw)
		ctx, cancel := context.WithCancel(context.Background())
		done := make(chan struct{})
		defer func() {
			close(done)
			cancel()
			synctest.Wait()
		}()
		go cw.Start(ctx)
		synctest.Wait()
		e.mu.Lock()
		w := e.w
		e.mu.Unlock()
		if w == nil {
			rep.HarnessError("chain updates: the watcher was not opened")
			return
		}
		kick := make(chan struct{}, 64)
		go func() { // fsnotify's reader: events in order, blocking sends
			for {
				select {
				case <-done:
					return
				case <-kick:
				}
				for {
					e.mu.Lock()
					evn, ok := model.Next()
					e.mu.Unlock()
					if !ok {
						break
					}
					select {
					case w.Events <- vfs.Event{Name: e.realName(evn.Name), Op: vfs.Op(evn.Op)}:
					case <-done:
						return
					}
				}
			}
		}()
		for _, group := range steps {
			for _, s := range group {
				e.mu.Lock()
				r := model.Apply(s, func() bool { return false })
				e.mu.Unlock()
				if derr := disk.Do(s); (r != "") != (derr != nil) {
					rep.HarnessError("chain updates: %s: step %v: model says %q, file system says %v", desc, s, r, derr)
					return
				}
				kick <- struct{}{}
				synctest.Wait()
			}
		}
		kick <- struct{}{}
		synctest.Wait()
		// no deadline in the statement: timers of the implementation (debounce, retry) get their time
		time.Sleep(30 * time.Second)
		synctest.Wait()
		rep.Add("chain_update_cases", 1)
		rep.Add("evaluations", 1)
		rep.Note("distinct_nontrivial", desc)
		s, cptr := observe(mat, cfg, "localhost")
		want := mat.ChainDER[last]
		ok := cptr != nil && len(cptr.Certificate) == len(want)
		for i := 0; ok && i < len(want); i++ {
			ok = bytes.Equal(cptr.Certificate[i], want[i])
		}
		if !ok {
			got := -1
			if cptr != nil {
				got = len(cptr.Certificate)
			}
			rep.Violate(map[string]any{"kind": "no-convergence-after-chain-update", "layout": fmt.Sprint(layout)},
				map[string]any{"part": "chain-updates", "layout": fmt.Sprint(layout), "updates": names},
				"%s: the certificate file on disk holds %d certificate(s) (chain generation %d), every step is over and every event delivered, but new handshakes are sent %d certificate(s) (%s) - not the file's", desc, len(want), last, got, s.code())
		}
	})
	if res.Panic != nil {
		if he, ok := res.Panic.(mc.HarnessError); ok {
			rep.HarnessError("chain updates: %v", he)
		} else {
			rep.Violate(map[string]any{"kind": "panic", "part": "chain-updates"}, map[string]any{"updates": names}, "%s: panic: %v\n%s", desc, res.Panic, res.Stack)
		}
	}
}
