// Package vtlsshim holds crypto/tls.LoadX509KeyPair with one scheduling point
// between its two file reads. Check C14 overlays it at
// github.com/wi1dcard/fingerproxy/pkg/vtlsshim and redirects the call in
// pkg/certwatcher to it. The body below IS the standard library's
// implementation (go1.26 crypto/tls/tls.go: ReadFile(cert), ReadFile(key),
// X509KeyPair) plus the vhook.Point line.
//
// ReadFile is os.ReadFile with a scheduling point in front of it; direct
// os.ReadFile calls in pkg/certwatcher (the unchanged code has none; edits of
// it may) are redirected to it so that file reads stay interleavable.
package vtlsshim

import (
	"crypto/tls"
	"os"

	"github.com/wi1dcard/fingerproxy/pkg/vhook"
)

func LoadX509KeyPair(certFile, keyFile string) (tls.Certificate, error) {
	certPEMBlock, err := os.ReadFile(certFile)
	if err != nil {
		return tls.Certificate{}, err
	}
	vhook.Point("tls.LoadX509KeyPair.betweenReads", certFile)
	keyPEMBlock, err := os.ReadFile(keyFile)
	if err != nil {
		return tls.Certificate{}, err
	}
	return tls.X509KeyPair(certPEMBlock, keyPEMBlock)
}

func ReadFile(name string) ([]byte, error) {
	vhook.Point("os.ReadFile.before", name)
	return os.ReadFile(name)
}
