// Package fsnotify is a stand-in for github.com/fsnotify/fsnotify v1.7.0 with
// the same exported API as far as pkg/certwatcher (and plausible edits of it)
// use it. Check C14 overlays it at github.com/wi1dcard/fingerproxy/pkg/vfsnotify
// and rewrites the import in pkg/certwatcher to point here (nothing is written
// under /repo). There is no kernel behind it: what Add does and which events
// arrive on Events is decided by a Backend the harness installs — the
// environment model verif/ref/certenv, which is validated against the real
// fsnotify on real inotify by checks/c14/realfs.
package fsnotify

import (
	"errors"
	"strings"
	"sync"
	"sync/atomic"
)

// Op describes a set of file operations (same values as the real package).
type Op uint32

const (
	Create Op = 1 << iota
	Write
	Remove
	Rename
	Chmod
)

// Event represents a file system notification.
type Event struct {
	Name string
	Op   Op
}

var (
	ErrNonExistentWatch = errors.New("fsnotify: can't remove non-existent watch")
	ErrEventOverflow    = errors.New("fsnotify: queue or buffer overflow")
	ErrClosed           = errors.New("fsnotify: watcher already closed")
)

func (o Op) String() string {
	var b strings.Builder
	if o.Has(Create) {
		b.WriteString("|CREATE")
	}
	if o.Has(Remove) {
		b.WriteString("|REMOVE")
	}
	if o.Has(Write) {
		b.WriteString("|WRITE")
	}
	if o.Has(Rename) {
		b.WriteString("|RENAME")
	}
	if o.Has(Chmod) {
		b.WriteString("|CHMOD")
	}
	if b.Len() == 0 {
		return "[no events]"
	}
	return b.String()[1:]
}

func (o Op) Has(h Op) bool     { return o&h != 0 }
func (e Event) Has(op Op) bool { return e.Op.Has(op) }
func (e Event) String() string { return e.Op.String() + "        \"" + e.Name + "\"" }

// Backend is the environment behind every Watcher of this process.
type Backend interface {
	// Opened is called by NewWatcher (w.Events / w.Errors exist already).
	Opened(w *Watcher) error
	// Add is Watcher.Add on an open watcher.
	Add(w *Watcher, name string) error
	// Remove is Watcher.Remove on an open watcher.
	Remove(w *Watcher, name string) error
	// Closed is called once by Watcher.Close before the channels are closed.
	Closed(w *Watcher)
}

var backend atomic.Pointer[Backend]

// SetBackend installs the environment (nil removes it).
func SetBackend(b Backend) {
	if b == nil {
		backend.Store(nil)
		return
	}
	backend.Store(&b)
}

// Watcher has the two channels of the real one. The harness sends on Events.
type Watcher struct {
	Events chan Event
	Errors chan error

	mu     sync.Mutex
	closed bool
}

func NewWatcher() (*Watcher, error) { return NewBufferedWatcher(0) }

func NewBufferedWatcher(sz uint) (*Watcher, error) {
	w := &Watcher{Events: make(chan Event, sz), Errors: make(chan error)}
	if b := backend.Load(); b != nil {
		if err := (*b).Opened(w); err != nil {
			return nil, err
		}
	}
	return w, nil
}

func (w *Watcher) isClosed() bool {
	w.mu.Lock()
	defer w.mu.Unlock()
	return w.closed
}

// IsClosed is for the harness.
func (w *Watcher) IsClosed() bool { return w.isClosed() }

func (w *Watcher) Add(name string) error {
	if w.isClosed() {
		return ErrClosed
	}
	if b := backend.Load(); b != nil {
		return (*b).Add(w, name)
	}
	return nil
}

func (w *Watcher) Remove(name string) error {
	if w.isClosed() {
		return nil
	}
	if b := backend.Load(); b != nil {
		return (*b).Remove(w, name)
	}
	return nil
}

func (w *Watcher) Close() error {
	w.mu.Lock()
	if w.closed {
		w.mu.Unlock()
		return nil
	}
	w.closed = true
	w.mu.Unlock()
	if b := backend.Load(); b != nil {
		(*b).Closed(w)
	}
	close(w.Errors)
	close(w.Events)
	return nil
}

func (w *Watcher) WatchList() []string { return nil }
