package realfs_test

// Stand-alone confirmation, on the REAL stack (unmodified pkg/certwatcher, real
// fsnotify v1.7.0, real inotify, real clock, no build tag, no overlay), of the
// stale-pair finding check C14 reports with sig {"kind":"stale-pair",
// "phase":"startup-window"}. Not part of bin/check; run by hand:
//
//	cd /verif/engine && GOFLAGS=-mod=mod GOPROXY=off go1.26.8 test -count=1 -v -run TestConfirm ./checks/c14/realfs/
//
// The test FAILS if the behaviour is NOT reproduced.

import (
	"bytes"
	"context"
	"os"
	"testing"
	"time"

	"github.com/wi1dcard/fingerproxy/pkg/certwatcher"
	"verif/ref/certenv"
)

func presented(t *testing.T, cw *certwatcher.CertWatcher, mat *certenv.Material) int {
	c, err := cw.GetCertificate(nil)
	if err != nil || c == nil || len(c.Certificate) == 0 {
		t.Fatalf("no certificate: %v", err)
	}
	for g := 1; g < len(mat.CertDER); g++ {
		if bytes.Equal(c.Certificate[0], mat.CertDER[g]) {
			return g
		}
	}
	return 0
}

// An update that lands between certwatcher.New (initial load) and the moment Start has
// added the watches is never picked up: no event is ever produced for it.
func TestConfirmStartupWindow(t *testing.T) {
	mat := certenv.NewMaterial(3)
	for _, style := range []string{"rename", "inplace", "dirswap"} {
		dir := t.TempDir()
		l := certenv.Plain
		if style == "dirswap" {
			l = certenv.K8s
		}
		d, err := certenv.NewDisk(dir, l, mat)
		if err != nil {
			t.Fatal(err)
		}
		cw, err := certwatcher.New(d.Path(certenv.Cert), d.Path(certenv.Key))
		if err != nil {
			t.Fatal(err)
		}
		// the update, complete, in one of the three supported styles
		var steps []certenv.Step
		switch style {
		case "rename":
			steps = []certenv.Step{{Op: certenv.OpRename, F: certenv.Cert, Gen: 2}, {Op: certenv.OpRename, F: certenv.Key, Gen: 2}}
		case "inplace":
			steps = []certenv.Step{{Op: certenv.OpFull, F: certenv.Cert, Gen: 2}, {Op: certenv.OpFull, F: certenv.Key, Gen: 2}}
		case "dirswap":
			steps = []certenv.Step{{Op: certenv.OpSwap, Gen: 2}}
		}
		for _, s := range steps {
			if err := d.Do(s); err != nil {
				t.Fatal(err)
			}
		}
		ctx, cancel := context.WithCancel(context.Background())
		done := make(chan struct{})
		go func() { cw.Start(ctx); close(done) }()
		time.Sleep(500 * time.Millisecond) // far longer than any event delivery
		g := presented(t, cw, mat)
		b, _ := os.ReadFile(d.Path(certenv.Cert))
		onDisk := bytes.Equal(b, mat.CertPEM[2])
		t.Logf("style %-8s: disk holds pair g2: %v; proxy presents g%d after 500ms of watching", style, onDisk, g)
		if !onDisk || g != 1 {
			t.Errorf("style %s: not reproduced (disk g2: %v, presented g%d)", style, onDisk, g)
		}
		// ... and any later event heals it (so the watcher itself works):
		if err := d.Do(certenv.Step{Op: certenv.OpFull, F: certenv.Key, Gen: 2}); err != nil {
			t.Fatal(err)
		}
		time.Sleep(300 * time.Millisecond)
		t.Logf("style %-8s: after one more write of the same key: presents g%d", style, presented(t, cw, mat))
		cancel()
		<-done
	}
}
