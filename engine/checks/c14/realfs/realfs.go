// Package realfs replays an operation history on a real directory under the
// real github.com/fsnotify/fsnotify v1.7.0 watcher (real kernel inotify) and
// records which events the watcher hands out for each operation. It is used
// by check C14, outside the synctest bubble, to validate the event model
// verif/ref/certenv against the real thing.
//
// Draining is exact, not timed: the same watcher also watches a sentinel
// file; after every operation the recorder writes one byte to the sentinel
// and collects events until the sentinel's own WRITE arrives. One inotify
// instance has one FIFO queue and fsnotify hands events out in queue order,
// so everything the operation produced has been received by then. (All
// events of our operations are queued inside the system call that causes
// them: no other process holds the files open.) The only timer is a watchdog
// that turns into an error.
package realfs

import (
	"fmt"
	"os"
	"path/filepath"
	"time"

	"github.com/fsnotify/fsnotify"
	"verif/ref/certenv"
)

// OpTrace is what one operation produced.
type OpTrace struct {
	Events []certenv.Event // events received for this operation, in order
	Err    string          // "" or an error class for the operation itself ("ENOENT")
}

// Run creates the layout under base (an empty directory), starts a real watcher on the
// two paths, performs the history and returns the per-operation traces. Event names are
// mapped back to "cert" / "key" ("" for an event without a name, otherwise the raw name).
func Run(base string, l certenv.Layout, mat *certenv.Material, hist []certenv.Step) (tr []OpTrace, err error) {
	work := filepath.Join(base, "w")
	if err := os.Mkdir(work, 0o700); err != nil {
		return nil, err
	}
	d, err := certenv.NewDisk(work, l, mat)
	if err != nil {
		return nil, err
	}
	sentinel := filepath.Join(base, "sentinel")
	sf, err := os.OpenFile(sentinel, os.O_CREATE|os.O_WRONLY|os.O_APPEND, 0o600)
	if err != nil {
		return nil, err
	}
	defer sf.Close()
	w, err := fsnotify.NewWatcher()
	if err != nil {
		return nil, err
	}
	defer w.Close()
	for _, p := range []string{d.Path(certenv.Cert), d.Path(certenv.Key), sentinel} {
		if err := w.Add(p); err != nil {
			return nil, fmt.Errorf("initial Add(%s): %v", p, err)
		}
	}
	name := func(n string) string {
		switch n {
		case d.Path(certenv.Cert):
			return "cert"
		case d.Path(certenv.Key):
			return "key"
		}
		return n
	}
	for _, s := range hist {
		var ot OpTrace
		if s.Op == certenv.OpAdd {
			if e := w.Add(d.Path(s.F)); e != nil {
				ot.Err = errClass(e)
			}
		} else if e := d.Do(s); e != nil {
			ot.Err = errClass(e)
		}
		if _, err := sf.Write([]byte{'.'}); err != nil {
			return nil, err
		}
		timer := time.NewTimer(60 * time.Second)
	collect:
		for {
			select {
			case ev, ok := <-w.Events:
				if !ok {
					timer.Stop()
					return nil, fmt.Errorf("watcher closed")
				}
				if ev.Name == sentinel {
					if ev.Op != fsnotify.Write {
						timer.Stop()
						return nil, fmt.Errorf("unexpected sentinel event %v", ev)
					}
					break collect
				}
				ot.Events = append(ot.Events, certenv.Event{Name: name(ev.Name), Op: certenv.Op(ev.Op)})
			case e := <-w.Errors:
				timer.Stop()
				return nil, fmt.Errorf("watcher error: %v", e)
			case <-timer.C:
				return nil, fmt.Errorf("watchdog: sentinel event not received within 60s after %v", s)
			}
		}
		timer.Stop()
		tr = append(tr, ot)
	}
	return tr, nil
}

func errClass(e error) string {
	if os.IsNotExist(e) {
		return "ENOENT"
	}
	return e.Error()
}
