// Package memnet is an in-memory net.Conn / net.Listener for use inside a
// testing/synctest bubble. Nothing here blocks on a mutex while waiting:
// waits are channel receives (durable blocks for synctest.Wait), writes never
// block, deadlines use the bubble's fake clock. The harness can stage bytes
// and deliver them in chosen pieces, inject an error at a chosen I/O operation
// and see every Close.
package memnet

import (
	"errors"
	"io"
	"net"
	"os"
	"sync"
	"sync/atomic"
	"syscall"
	"time"
)

// Hook, if set, is called at environment-boundary scheduling points (site, key) so that the
// harness can park the calling goroutine there (see bubble.Gates.HookMemnet). Sites:
// "memnet.Listener.Close.after" (key: the *Listener) - after the listener was closed and Accept woken.
var Hook atomic.Pointer[func(site string, key any)]

func hook(site string, key any) {
	if h := Hook.Load(); h != nil {
		(*h)(site, key)
	}
}

type Addr struct{ Net, S string }

func (a Addr) Network() string { return a.Net }
func (a Addr) String() string  { return a.S }

// TCPAddr builds a *net.TCPAddr (what RemoteAddr of a real TCP conn returns).
func TCPAddr(ip string, port int) net.Addr { return &net.TCPAddr{IP: net.ParseIP(ip), Port: port} }

type half struct {
	mu     sync.Mutex
	buf    []byte
	staged []byte
	manual bool
	eof    bool  // writer closed
	rerr   error // reader sees this error once buf is drained (e.g. ECONNRESET)
	wake   chan struct{}
	cap    int           // 0 = unbounded; otherwise a writer blocks while cap bytes are unread (a peer that stopped reading)
	space  chan struct{} // closed and replaced whenever the reader consumed bytes or cap changed
}

func newHalf() *half { return &half{wake: make(chan struct{}), space: make(chan struct{})} }

func (h *half) freed() { // h.mu held
	close(h.space)
	h.space = make(chan struct{})
}

func (h *half) signal() { // h.mu held
	close(h.wake)
	h.wake = make(chan struct{})
}

type timeoutError struct{}

func (timeoutError) Error() string   { return "i/o timeout" }
func (timeoutError) Timeout() bool   { return true }
func (timeoutError) Temporary() bool { return true }
func (timeoutError) Is(err error) bool {
	return err == os.ErrDeadlineExceeded
}

// ErrTimeout is what a read past its deadline returns (a net.Error with Timeout()).
var ErrTimeout net.Error = timeoutError{}

// Op describes one I/O operation on a Conn, in order.
type Op struct {
	Kind string // Read Write Close SetDeadline SetReadDeadline SetWriteDeadline
	N    int
	Err  string
}

type Conn struct {
	rd, wr        *half
	local, remote net.Addr
	Name          string

	mu       sync.Mutex
	closed   bool
	closedCh chan struct{}
	rdl      time.Time
	wdl      time.Time
	dlwake   chan struct{}

	// harness side
	Closes   int                              // number of Close calls
	Ops      []Op                             // op log (only if LogOps)
	LogOps   bool                             //
	Fault    func(kind string, idx int) error // consulted before every op; non-nil error is returned by the op
	opIdx    int
	Peer     *Conn
	cutAt    int64
	cutSet   bool
	cutFn    func()
	WroteN   int64
	ReadN    int64
	OnClose  func()
	Accepted bool // set when a Listener's Accept returned this connection
}

// Pair returns two connected endpoints. a's RemoteAddr is bAddr and vice versa.
func Pair(aAddr, bAddr net.Addr) (*Conn, *Conn) {
	ab, ba := newHalf(), newHalf()
	a := &Conn{rd: ba, wr: ab, local: aAddr, remote: bAddr, closedCh: make(chan struct{}), dlwake: make(chan struct{})}
	b := &Conn{rd: ab, wr: ba, local: bAddr, remote: aAddr, closedCh: make(chan struct{}), dlwake: make(chan struct{})}
	a.Peer, b.Peer = b, a
	return a, b
}

func (c *Conn) op(kind string) (int, error) {
	c.mu.Lock()
	idx := c.opIdx
	c.opIdx++
	f := c.Fault
	c.mu.Unlock()
	if f != nil {
		if err := f(kind, idx); err != nil {
			c.logOp(kind, 0, err)
			return idx, err
		}
	}
	return idx, nil
}

func (c *Conn) logOp(kind string, n int, err error) {
	if !c.LogOps {
		return
	}
	c.mu.Lock()
	o := Op{Kind: kind, N: n}
	if err != nil {
		o.Err = err.Error()
	}
	c.Ops = append(c.Ops, o)
	c.mu.Unlock()
}

// NumOps is the number of I/O operations performed so far.
func (c *Conn) NumOps() int {
	c.mu.Lock()
	defer c.mu.Unlock()
	return c.opIdx
}

func (c *Conn) Read(b []byte) (int, error) {
	if _, err := c.op("Read"); err != nil {
		return 0, err
	}
	for {
		c.mu.Lock()
		if c.closed {
			c.mu.Unlock()
			c.logOp("Read", 0, net.ErrClosed)
			return 0, net.ErrClosed
		}
		dl := c.rdl
		dw := c.dlwake
		c.mu.Unlock()
		if !dl.IsZero() && !time.Now().Before(dl) {
			c.logOp("Read", 0, ErrTimeout)
			return 0, &net.OpError{Op: "read", Net: "mem", Addr: c.remote, Err: ErrTimeout}
		}
		h := c.rd
		h.mu.Lock()
		if len(h.buf) > 0 {
			n := 0
			if len(b) > 0 {
				n = copy(b, h.buf)
				h.buf = h.buf[n:]
				h.freed()
			}
			h.mu.Unlock()
			c.mu.Lock()
			c.ReadN += int64(n)
			c.mu.Unlock()
			c.logOp("Read", n, nil)
			return n, nil
		}
		if h.rerr != nil {
			err := h.rerr
			h.mu.Unlock()
			c.logOp("Read", 0, err)
			return 0, &net.OpError{Op: "read", Net: "mem", Addr: c.remote, Err: err}
		}
		if h.eof {
			h.mu.Unlock()
			c.logOp("Read", 0, io.EOF)
			return 0, io.EOF
		}
		if len(b) == 0 {
			h.mu.Unlock()
			return 0, nil
		}
		w := h.wake
		h.mu.Unlock()
		if dl.IsZero() {
			select {
			case <-w:
			case <-c.closedCh:
			case <-dw:
			}
		} else {
			t := time.NewTimer(time.Until(dl))
			select {
			case <-w:
			case <-c.closedCh:
			case <-dw:
			case <-t.C:
			}
			t.Stop()
		}
	}
}

func (c *Conn) Write(b []byte) (int, error) {
	if _, err := c.op("Write"); err != nil {
		return 0, err
	}
	c.mu.Lock()
	if c.closed {
		c.mu.Unlock()
		c.logOp("Write", 0, net.ErrClosed)
		return 0, net.ErrClosed
	}
	c.mu.Unlock()
	// has the peer closed? then the write fails like a write on a reset TCP conn
	p := c.Peer
	p.mu.Lock()
	pc := p.closed
	p.mu.Unlock()
	if pc {
		err := &net.OpError{Op: "write", Net: "mem", Addr: c.remote, Err: syscall.EPIPE}
		c.logOp("Write", 0, err)
		return 0, err
	}
	c.mu.Lock()
	var cut func()
	full := len(b)
	if c.cutSet && c.WroteN+int64(len(b)) >= c.cutAt {
		keep := c.cutAt - c.WroteN
		if keep < 0 {
			keep = 0
		}
		b = b[:keep]
		cut = c.cutFn
		c.cutSet = false
	}
	c.mu.Unlock()
	h := c.wr
	rest := b
	for {
		h.mu.Lock()
		if h.manual || h.cap == 0 {
			if h.manual {
				h.staged = append(h.staged, rest...)
			} else if len(rest) > 0 {
				h.buf = append(h.buf, rest...)
				h.signal()
			}
			h.mu.Unlock()
			break
		}
		free := h.cap - len(h.buf)
		if free > 0 {
			n := free
			if n > len(rest) {
				n = len(rest)
			}
			h.buf = append(h.buf, rest[:n]...)
			rest = rest[n:]
			h.signal()
		}
		if len(rest) == 0 {
			h.mu.Unlock()
			break
		}
		sp := h.space
		h.mu.Unlock()
		// the peer is not reading: block (durably, on channels) until it does, we are closed, or the write deadline passes
		c.mu.Lock()
		wdl, closedCh, dw := c.wdl, c.closedCh, c.dlwake
		c.mu.Unlock()
		var tc <-chan time.Time
		var t *time.Timer
		if !wdl.IsZero() {
			d := time.Until(wdl)
			if d <= 0 {
				wrote := len(b) - len(rest)
				c.logOp("Write", wrote, ErrTimeout)
				return wrote, &net.OpError{Op: "write", Net: "mem", Addr: c.remote, Err: ErrTimeout}
			}
			t = time.NewTimer(d)
			tc = t.C
		}
		select {
		case <-sp:
		case <-closedCh:
			if t != nil {
				t.Stop()
			}
			return len(b) - len(rest), net.ErrClosed
		case <-dw:
		case <-tc:
		}
		if t != nil {
			t.Stop()
		}
		p.mu.Lock()
		gone := p.closed
		p.mu.Unlock()
		if gone {
			return len(b) - len(rest), &net.OpError{Op: "write", Net: "mem", Addr: c.remote, Err: syscall.EPIPE}
		}
	}
	c.mu.Lock()
	c.WroteN += int64(len(b))
	c.mu.Unlock()
	c.logOp("Write", len(b), nil)
	if cut != nil {
		cut()
		if len(b) < full {
			return len(b), &net.OpError{Op: "write", Net: "mem", Addr: c.remote, Err: syscall.EPIPE}
		}
	}
	return len(b), nil
}

func (c *Conn) Close() error {
	_, ferr := c.op("Close")
	c.mu.Lock()
	c.Closes++
	if c.closed {
		c.mu.Unlock()
		return ferr
	}
	c.closed = true
	close(c.closedCh)
	oc := c.OnClose
	c.mu.Unlock()
	h := c.wr
	h.mu.Lock()
	h.eof = true
	// bytes staged but never delivered are lost with the connection only if the harness says so; deliver by default
	h.signal()
	h.mu.Unlock()
	// a peer blocked writing to us (bounded buffer) must notice that we are gone
	c.rd.mu.Lock()
	c.rd.freed()
	c.rd.mu.Unlock()
	c.logOp("Close", 0, ferr)
	if oc != nil {
		oc()
	}
	return ferr
}

// Closed reports whether Close was called on this endpoint.
func (c *Conn) Closed() bool {
	c.mu.Lock()
	defer c.mu.Unlock()
	return c.closed
}

func (c *Conn) NumCloses() int {
	c.mu.Lock()
	defer c.mu.Unlock()
	return c.Closes
}

// Reset makes the peer's next read (after buffered data) fail with err
// (e.g. syscall.ECONNRESET) and this endpoint closed.
func (c *Conn) Reset(err error) {
	h := c.wr
	h.mu.Lock()
	h.rerr = err
	h.buf = nil // a reset discards undelivered data
	h.staged = nil
	h.signal()
	h.mu.Unlock()
	c.mu.Lock()
	if !c.closed {
		c.closed = true
		close(c.closedCh)
	}
	c.mu.Unlock()
	c.rd.mu.Lock()
	c.rd.freed()
	c.rd.mu.Unlock()
}

func (c *Conn) LocalAddr() net.Addr  { return c.local }
func (c *Conn) RemoteAddr() net.Addr { return c.remote }

func (c *Conn) SetDeadline(t time.Time) error {
	if _, err := c.op("SetDeadline"); err != nil {
		return err
	}
	c.mu.Lock()
	c.wdl = t
	c.mu.Unlock()
	c.setRD(t)
	return nil
}
func (c *Conn) SetReadDeadline(t time.Time) error {
	if _, err := c.op("SetReadDeadline"); err != nil {
		return err
	}
	c.setRD(t)
	return nil
}
func (c *Conn) SetWriteDeadline(t time.Time) error {
	if _, err := c.op("SetWriteDeadline"); err != nil {
		return err
	}
	c.mu.Lock()
	c.wdl = t
	close(c.dlwake)
	c.dlwake = make(chan struct{})
	c.mu.Unlock()
	return nil
}

func (c *Conn) setRD(t time.Time) {
	c.mu.Lock()
	c.rdl = t
	close(c.dlwake)
	c.dlwake = make(chan struct{})
	c.mu.Unlock()
}

// SetManual switches the direction written by c to staged delivery: bytes
// written by c reach the peer only through Deliver.
func (c *Conn) SetManual(on bool) {
	h := c.wr
	h.mu.Lock()
	h.manual = on
	if !on && len(h.staged) > 0 {
		h.buf = append(h.buf, h.staged...)
		h.staged = nil
		h.signal()
	}
	h.mu.Unlock()
}

// Staged returns how many written bytes wait for delivery.
func (c *Conn) Staged() int {
	h := c.wr
	h.mu.Lock()
	defer h.mu.Unlock()
	return len(h.staged)
}

// Deliver moves up to n staged bytes to the peer (n<0: all). Returns bytes moved.
func (c *Conn) Deliver(n int) int {
	h := c.wr
	h.mu.Lock()
	defer h.mu.Unlock()
	if n < 0 || n > len(h.staged) {
		n = len(h.staged)
	}
	if n == 0 {
		return 0
	}
	h.buf = append(h.buf, h.staged[:n]...)
	h.staged = h.staged[n:]
	h.signal()
	return n
}

// Unread returns the number of delivered bytes the peer has not read yet.
func (c *Conn) Unread() int {
	h := c.wr
	h.mu.Lock()
	defer h.mu.Unlock()
	return len(h.buf)
}

// Listener is an in-memory net.Listener.
type Listener struct {
	mu        sync.Mutex
	ch        chan net.Conn
	closedCh  chan struct{}
	closed    bool
	Closes    int
	addr      net.Addr
	AcceptErr error // returned once by the next Accept if set
	accepted  int
}

func NewListener() *Listener {
	return &Listener{ch: make(chan net.Conn, 1024), closedCh: make(chan struct{}), addr: TCPAddr("127.0.0.1", 443)}
}

func (l *Listener) Accept() (net.Conn, error) {
	l.mu.Lock()
	if e := l.AcceptErr; e != nil {
		l.AcceptErr = nil
		l.mu.Unlock()
		return nil, e
	}
	l.mu.Unlock()
	select {
	case <-l.closedCh:
		return nil, &net.OpError{Op: "accept", Net: "mem", Addr: l.addr, Err: net.ErrClosed}
	default:
	}
	select {
	case c := <-l.ch:
		l.mu.Lock()
		l.accepted++
		if mc, ok := c.(*Conn); ok {
			mc.mu.Lock()
			mc.Accepted = true
			mc.mu.Unlock()
		}
		l.mu.Unlock()
		return c, nil
	case <-l.closedCh:
		return nil, &net.OpError{Op: "accept", Net: "mem", Addr: l.addr, Err: net.ErrClosed}
	}
}

// NumAccepted is the number of connections Accept has returned.
func (l *Listener) NumAccepted() int {
	l.mu.Lock()
	defer l.mu.Unlock()
	return l.accepted
}

// WasAccepted reports whether a listener's Accept returned this (server-side) connection.
func (c *Conn) WasAccepted() bool {
	c.mu.Lock()
	defer c.mu.Unlock()
	return c.Accepted
}

func (l *Listener) Close() error {
	l.mu.Lock()
	l.Closes++
	first := !l.closed
	if first {
		l.closed = true
		close(l.closedCh)
	}
	l.mu.Unlock()
	if first {
		hook("memnet.Listener.Close.after", l)
	}
	return nil
}

func (l *Listener) NumCloses() int {
	l.mu.Lock()
	defer l.mu.Unlock()
	return l.Closes
}

func (l *Listener) Addr() net.Addr { return l.addr }

// Pending is the number of dialled connections not yet accepted.
func (l *Listener) Pending() int { return len(l.ch) }

var ErrRefused = errors.New("connection refused")

// Dial creates a connection whose server side (as seen by Accept) reports
// clientAddr as RemoteAddr. It returns (client end, server end).
func (l *Listener) Dial(clientAddr net.Addr) (*Conn, *Conn, error) {
	return l.DialWith(clientAddr, nil)
}

// DialWith is Dial with a preparation step run on both ends before the server can accept the connection
// (install Fault hooks, cut-offs, manual delivery).
func (l *Listener) DialWith(clientAddr net.Addr, prep func(cl, sv *Conn)) (*Conn, *Conn, error) {
	l.mu.Lock()
	closed := l.closed
	l.mu.Unlock()
	if closed {
		return nil, nil, ErrRefused
	}
	cl, sv := Pair(clientAddr, l.addr)
	if prep != nil {
		prep(cl, sv)
	}
	l.ch <- sv
	return cl, sv, nil
}

// CutAfter arranges that only the first n bytes written by c ever reach the peer; when byte n has been
// written (or at once if n == 0 bytes are allowed and the first write happens) the connection is aborted
// by calling abort (typically c.Close or c.Reset). Total counts bytes over all writes.
func (c *Conn) CutAfter(n int64, abort func()) {
	c.mu.Lock()
	c.cutAt = n
	c.cutSet = true
	c.cutFn = abort
	c.mu.Unlock()
}

// TakeAll returns (and consumes) everything currently readable on c without blocking.
func (c *Conn) TakeAll() []byte {
	h := c.rd
	h.mu.Lock()
	defer h.mu.Unlock()
	b := h.buf
	h.buf = nil
	h.freed()
	return b
}

// PeerGone reports whether the peer closed or reset its end (what a read would eventually see).
func (c *Conn) PeerGone() bool {
	h := c.rd
	h.mu.Lock()
	defer h.mu.Unlock()
	return h.eof || h.rerr != nil
}

// SetWriteCap bounds how many bytes written by c may sit unread at the peer (0 = unbounded, the default): with a
// bound, c's writer blocks - like a TCP sender whose peer stopped reading - until the peer reads, c is closed, the
// peer closes, or c's write deadline passes.
func (c *Conn) SetWriteCap(n int) {
	h := c.wr
	h.mu.Lock()
	h.cap = n
	h.freed()
	h.mu.Unlock()
}
