package memnet

import (
	"testing"
	"testing/synctest"
	"time"
)

func TestWriteCap(t *testing.T) {
	synctest.Test(t, func(t *testing.T) {
		a, b := Pair(TCPAddr("10.0.0.1", 1), TCPAddr("10.0.0.2", 2))
		a.SetWriteCap(4)
		done := make(chan int, 1)
		go func() { n, _ := a.Write([]byte("0123456789")); done <- n }()
		synctest.Wait()
		select {
		case <-done:
			t.Fatal("write of 10 bytes with cap 4 returned without a reader")
		default:
		}
		buf := make([]byte, 3)
		n, _ := b.Read(buf)
		if n != 3 {
			t.Fatalf("read %d", n)
		}
		synctest.Wait()
		rest := b.TakeAll()
		synctest.Wait()
		rest = append(rest, b.TakeAll()...)
		synctest.Wait()
		if got := <-done; got != 10 || string(buf[:n])+string(rest) != "0123456789" {
			t.Fatalf("wrote %d, peer saw %q", got, string(buf[:n])+string(rest))
		}
		// write deadline
		a.SetWriteDeadline(time.Now().Add(time.Second))
		go func() { n, err := a.Write(make([]byte, 100)); _ = err; done <- n }()
		synctest.Wait()
		time.Sleep(2 * time.Second)
		synctest.Wait()
		if got := <-done; got != 4 {
			t.Fatalf("blocked write past its deadline wrote %d, want 4", got)
		}
	})
}
