//go:build verif

package bubble

import (
	"crypto/ecdsa"
	"crypto/elliptic"
	"crypto/rand"
	"crypto/tls"
	"crypto/x509"
	"crypto/x509/pkix"
	"encoding/pem"
	"math/big"
	"sync"
	"time"
)

var (
	certOnce sync.Once
	srvCert  tls.Certificate
)

// ServerCert returns a process-wide self-signed ECDSA certificate for "localhost".
func ServerCert() tls.Certificate {
	certOnce.Do(func() { srvCert, _, _ = GenCert("localhost", 1) })
	return srvCert
}

// GenCert creates a self-signed certificate; returns it with PEM encodings.
func GenCert(cn string, serial int64) (tls.Certificate, []byte, []byte) {
	key, err := ecdsa.GenerateKey(elliptic.P256(), rand.Reader)
	if err != nil {
		panic(err)
	}
	tmpl := &x509.Certificate{
		SerialNumber: big.NewInt(serial),
		Subject:      pkix.Name{CommonName: cn},
		NotBefore:    time.Date(1999, 1, 1, 0, 0, 0, 0, time.UTC),
		NotAfter:     time.Date(2100, 1, 1, 0, 0, 0, 0, time.UTC),
		KeyUsage:     x509.KeyUsageDigitalSignature | x509.KeyUsageKeyEncipherment,
		ExtKeyUsage:  []x509.ExtKeyUsage{x509.ExtKeyUsageServerAuth},
		DNSNames:     []string{cn, "localhost", "example.com"},
	}
	der, err := x509.CreateCertificate(rand.Reader, tmpl, tmpl, &key.PublicKey, key)
	if err != nil {
		panic(err)
	}
	kb, err := x509.MarshalECPrivateKey(key)
	if err != nil {
		panic(err)
	}
	cp := pem.EncodeToMemory(&pem.Block{Type: "CERTIFICATE", Bytes: der})
	kp := pem.EncodeToMemory(&pem.Block{Type: "EC PRIVATE KEY", Bytes: kb})
	c, err := tls.X509KeyPair(cp, kp)
	if err != nil {
		panic(err)
	}
	return c, cp, kp
}
