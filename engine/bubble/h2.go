//go:build verif

package bubble

import (
	"context"
	"crypto/tls"
	"net/http"

	"github.com/wi1dcard/fingerproxy/pkg/http2"
	"github.com/wi1dcard/fingerproxy/pkg/metadata"
	"verif/memnet"
	"verif/ref/h2wire"
)

// H2Conn is a raw-frame client attached to the real http2.Server.ServeConn
// over an in-memory connection, with the per-connection metadata record
// built the way proxyserver.serveConn builds it.
type H2Conn struct {
	Cl, Sv *memnet.Conn
	MD     *metadata.Metadata
	Parser h2wire.Parser
	Enc    *h2wire.Encoder
	Dec    *h2wire.Decoder
	Done   chan struct{}
	Cancel context.CancelFunc
}

// StartH2 starts ServeConn in a new goroutine (inside the current bubble).
func StartH2(srv *http2.Server, base *http.Server, handler http.Handler) *H2Conn {
	cl, sv := memnet.Pair(memnet.TCPAddr("10.0.0.1", 40001), memnet.TCPAddr("127.0.0.1", 443))
	parent, cancel := context.WithCancel(context.Background())
	ctx, md := metadata.NewContext(parent)
	md.ConnectionState = tls.ConnectionState{NegotiatedProtocol: "h2", Version: tls.VersionTLS13, HandshakeComplete: true}
	c := &H2Conn{Cl: cl, Sv: sv, MD: md, Enc: h2wire.NewEncoder(), Dec: h2wire.NewDecoder(), Done: make(chan struct{}), Cancel: cancel}
	go func() {
		defer close(c.Done)
		srv.ServeConn(sv, &http2.ServeConnOpts{Context: ctx, BaseConfig: base, Handler: handler})
	}()
	return c
}

func (c *H2Conn) Send(b []byte) { c.Cl.Write(b) }

// Frames returns the frames the server has written since the last call.
func (c *H2Conn) Frames() []h2wire.Frame { return c.Parser.Feed(c.Cl.TakeAll()) }

// Close closes the client end and waits for ServeConn to return.
func (c *H2Conn) Close() {
	c.Cl.Close()
	<-c.Done
	c.Cancel()
}
