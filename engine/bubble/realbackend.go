//go:build verif

package bubble

import (
	"context"
	"io"
	"net"
	"net/http"
	"sync"

	"verif/memnet"
)

// RespScript tells the real backend what to answer.
type RespScript struct {
	Status  int
	Header  http.Header
	Pieces  [][]byte // body written piece by piece
	Flush   bool     // Flush after every piece
	Trailer http.Header
	// AbortAfter > 0: after that many pieces (flushed) the backend dies: the handler panics with http.ErrAbortHandler,
	// net/http cuts the connection in the middle of the body
	AbortAfter int
}

// RealBackend is a real net/http HTTP/1.1 server on an in-memory listener, reached through
// the proxy's real http.Transport (DialContext = b.Dial). It records every request completely.
type RealBackend struct {
	Ln     *memnet.Listener
	Srv    *http.Server
	mu     sync.Mutex
	Reqs   []*RecReq
	Script func(*RecReq) *RespScript
	Hold   func(*RecReq) // optional, may block (called after the request was read, before answering)
	done   chan struct{}
	port   int
}

func NewRealBackend() *RealBackend {
	b := &RealBackend{Ln: memnet.NewListener(), done: make(chan struct{}), port: 30000}
	b.Srv = &http.Server{Handler: http.HandlerFunc(b.serve)}
	go func() {
		defer close(b.done)
		b.Srv.Serve(b.Ln)
	}()
	return b
}

func (b *RealBackend) Dial(ctx context.Context, network, addr string) (net.Conn, error) {
	b.mu.Lock()
	b.port++
	p := b.port
	b.mu.Unlock()
	cl, _, err := b.Ln.Dial(memnet.TCPAddr("10.9.9.9", p))
	if err != nil {
		return nil, err
	}
	return cl, nil
}

func (b *RealBackend) serve(w http.ResponseWriter, r *http.Request) {
	rr := &RecReq{Method: r.Method, Path: r.URL.EscapedPath(), RawQuery: r.URL.RawQuery, Host: r.Host, Proto: r.Proto,
		Header: r.Header.Clone(), ContentLength: r.ContentLength, TransferEncoding: append([]string(nil), r.TransferEncoding...)}
	if r.URL.ForceQuery && rr.RawQuery == "" {
		rr.RawQuery = "?"
	}
	body, _ := io.ReadAll(r.Body)
	rr.Body = body
	if len(r.Trailer) > 0 {
		rr.Trailer = r.Trailer.Clone()
	}
	b.mu.Lock()
	b.Reqs = append(b.Reqs, rr)
	script, hold := b.Script, b.Hold
	b.mu.Unlock()
	if hold != nil {
		hold(rr)
	}
	rs := &RespScript{Status: 200, Header: http.Header{"Content-Type": {"text/plain"}}, Pieces: [][]byte{[]byte("backend:" + rr.Path)}}
	if script != nil {
		if s := script(rr); s != nil {
			rs = s
		}
	}
	for k, vs := range rs.Header {
		for _, v := range vs {
			w.Header().Add(k, v)
		}
	}
	for k := range rs.Trailer {
		w.Header().Add("Trailer", k)
	}
	w.WriteHeader(rs.Status)
	for i, p := range rs.Pieces {
		if rs.AbortAfter > 0 && i == rs.AbortAfter {
			panic(http.ErrAbortHandler)
		}
		w.Write(p)
		if rs.Flush || rs.AbortAfter > 0 {
			if f, ok := w.(http.Flusher); ok {
				f.Flush()
			}
		}
	}
	for k, vs := range rs.Trailer {
		for _, v := range vs {
			w.Header().Add(k, v)
		}
	}
}

func (b *RealBackend) All() []*RecReq {
	b.mu.Lock()
	defer b.mu.Unlock()
	return append([]*RecReq(nil), b.Reqs...)
}

func (b *RealBackend) Count() int { b.mu.Lock(); defer b.mu.Unlock(); return len(b.Reqs) }

func (b *RealBackend) Close() {
	b.Srv.Close()
	<-b.done
}
