//go:build verif

package bubble

import (
	"fmt"
	"regexp"
	"runtime"
	"sort"
	"strings"
	"sync/atomic"
	"testing"
	"testing/synctest"
	"time"

	"github.com/wi1dcard/fingerproxy/pkg/http2"
)

// Result of one bubble.
type RunResult struct {
	Panic    any    // panic raised by the body (recovered), nil if none
	Stack    string // stack of that panic
	Deadlock string // non-empty if the bubble ended with goroutines blocked forever (census of them)
	Hang     string // non-empty if the execution never came back (see HangTimeout)
}

// HangTimeout is the real time after which an execution that has not come back is declared hung
// (a goroutine of the bubble is blocked in a way testing/synctest does not consider durable - typically
// sync.Mutex.Lock on a mutex nobody will release - so neither synctest.Wait nor the end of the bubble can happen).
var HangTimeout = 45 * time.Second

var hangs int32

// Run executes body in a fresh bubble. A panic in body is recovered and
// reported; "blocked goroutines remain" at the end of the bubble is reported
// as Deadlock instead of crashing; an execution that does not come back within
// HangTimeout is abandoned (its goroutines stay behind) and reported as Hang with
// the non-durably blocked goroutines of bubbles found in a full stack dump.
func Run(t *testing.T, body func()) (res RunResult) {
	if atomic.LoadInt32(&hangs) >= 1 {
		// An execution of this process never came back. Its goroutines are still there (parked on the real code's
		// locks, holding its pools and timers): what later executions in this process show cannot be trusted - one
		// was seen to lose response bytes - so none is run.
		return RunResult{Hang: "skipped: an earlier execution of this worker hung"}
	}
	done := make(chan RunResult, 1)
	go func() { done <- run1(t, body) }()
	tm := time.NewTimer(HangTimeout)
	defer tm.Stop()
	select {
	case r := <-done:
		return r
	case <-tm.C:
		atomic.AddInt32(&hangs, 1)
		http2.VerifResetPools()
		return RunResult{Hang: hangReport()}
	}
}

func hangReport() string {
	buf := make([]byte, 4<<20)
	buf = buf[:runtime.Stack(buf, true)]
	var out []string
	where := ""
	for _, b := range strings.Split(string(buf), "\n\n") {
		lines := strings.Split(b, "\n")
		if where == "" && strings.Contains(b, "verif/bubble.run1.func") {
			// the goroutine that runs the execution's body: where did it stop
			var fs []string
			for _, l := range lines[1:] {
				if strings.HasPrefix(l, "\t") || strings.HasPrefix(l, "created by") || strings.HasPrefix(l, "runtime.") || strings.HasPrefix(l, "internal/") {
					continue
				}
				if i := strings.LastIndex(l, "("); i > 0 {
					l = l[:i]
				}
				fs = append(fs, l)
				if len(fs) == 6 {
					break
				}
			}
			where = "; the execution itself stands in " + strings.Join(fs, " <- ")
		}
		m := hdrRE.FindStringSubmatch(lines[0])
		if m == nil || !strings.Contains(m[2], "synctest bubble") || strings.Contains(m[2], "(durable)") {
			continue
		}
		st := strings.TrimSpace(strings.Split(m[2], ",")[0])
		if st == "running" || st == "runnable" {
			continue
		}
		var fs []string
		for _, l := range lines[1:] {
			if strings.HasPrefix(l, "\t") || strings.HasPrefix(l, "created by") {
				continue
			}
			if i := strings.LastIndex(l, "("); i > 0 {
				l = l[:i]
			}
			if !strings.HasPrefix(l, "runtime.") && !strings.HasPrefix(l, "internal/") && !strings.HasPrefix(l, "sync.") {
				fs = append(fs, l)
			}
			if len(fs) == 3 {
				break
			}
		}
		out = append(out, st+" in "+strings.Join(fs, " <- "))
	}
	sort.Strings(out)
	if len(out) > 6 {
		out = out[:6]
	}
	return "execution did not come back: goroutines blocked non-durably: " + strings.Join(out, "; ") + where
}

func run1(t *testing.T, body func()) (res RunResult) {
	defer func() {
		if r := recover(); r != nil {
			s := fmt.Sprint(r)
			if strings.Contains(s, "deadlock") || strings.Contains(s, "blocked goroutines remain") {
				res.Deadlock = s
				return
			}
			panic(r)
		}
	}()
	defer http2.VerifResetPools() // channels pooled by pkg/http2 must not survive into the next bubble
	synctest.Test(t, func(t *testing.T) {
		defer func() {
			if r := recover(); r != nil {
				res.Panic = r
				buf := make([]byte, 1<<16)
				res.Stack = string(buf[:runtime.Stack(buf, false)])
			}
		}()
		body()
	})
	return res
}

type G struct {
	ID      string
	State   string
	Top     string // innermost function
	Funcs   []string
	Created string // "created by" function
}

var hdrRE = regexp.MustCompile(`^goroutine (\d+) \[([^\]]*)\]:`)

// Census lists the goroutines of the current bubble (excluding the caller).
func Census() []G {
	buf := make([]byte, 1<<20)
	for {
		n := runtime.Stack(buf, true)
		if n < len(buf) {
			buf = buf[:n]
			break
		}
		buf = make([]byte, 2*len(buf))
	}
	blocks := strings.Split(string(buf), "\n\n")
	var mine string
	var out []G
	for bi, b := range blocks {
		lines := strings.Split(b, "\n")
		m := hdrRE.FindStringSubmatch(lines[0])
		if m == nil {
			continue
		}
		bub := ""
		if i := strings.Index(m[2], "synctest bubble "); i >= 0 {
			bub = strings.TrimSpace(m[2][i+len("synctest bubble "):])
			if j := strings.IndexAny(bub, ",]"); j >= 0 {
				bub = bub[:j]
			}
		}
		if bi == 0 {
			mine = bub
			continue
		}
		if bub == "" || bub != mine {
			continue
		}
		g := G{ID: m[1], State: strings.TrimSpace(strings.Split(m[2], ",")[0])}
		for _, l := range lines[1:] {
			if strings.HasPrefix(l, "\t") {
				continue
			}
			if strings.HasPrefix(l, "created by ") {
				c := strings.TrimPrefix(l, "created by ")
				if i := strings.Index(c, " in goroutine"); i >= 0 {
					c = c[:i]
				}
				g.Created = c
				continue
			}
			if i := strings.LastIndex(l, "("); i > 0 {
				l = l[:i]
			}
			g.Funcs = append(g.Funcs, l)
		}
		if len(g.Funcs) > 0 {
			g.Top = g.Funcs[0]
		}
		out = append(out, g)
	}
	return out
}

// CensusSummary returns one "created-by <- blocked-in [state]" line per goroutine, sorted.
func CensusSummary() []string {
	var s []string
	for _, g := range Census() {
		s = append(s, fmt.Sprintf("%s <- %s [%s]", g.Created, firstNonRuntime(g.Funcs), g.State))
	}
	sort.Strings(s)
	return s
}

func firstNonRuntime(fs []string) string {
	for _, f := range fs {
		if !strings.HasPrefix(f, "runtime.") && !strings.HasPrefix(f, "internal/") && !strings.HasPrefix(f, "sync.") && !strings.HasPrefix(f, "time.") {
			return f
		}
	}
	if len(fs) > 0 {
		return fs[0]
	}
	return "?"
}

// Has reports whether some goroutine of the bubble has a frame containing sub.
func Has(gs []G, sub string) bool {
	for _, g := range gs {
		for _, f := range g.Funcs {
			if strings.Contains(f, sub) {
				return true
			}
		}
		if strings.Contains(g.Created, sub) {
			return true
		}
	}
	return false
}

// SUT returns the census lines of goroutines that belong to the code under test
// (not created by harness packages verif/... or by the testing package).
func SUT() []string {
	var out []string
	for _, g := range Census() {
		if strings.HasPrefix(g.Created, "verif/") || strings.HasPrefix(g.Created, "testing") {
			continue
		}
		harness := false
		for _, f := range g.Funcs {
			if strings.HasPrefix(f, "verif/bubble.(*Client)") {
				harness = true
			}
		}
		if harness {
			continue
		}
		out = append(out, fmt.Sprintf("%s <- %s", g.Created, firstNonRuntime(g.Funcs)))
	}
	sort.Strings(out)
	return out
}
