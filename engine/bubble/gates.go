//go:build verif

// Package bubble runs real fingerproxy code inside a testing/synctest bubble
// under the control of the explorer: gates (vhook.Point) park goroutines of
// the code under test at chosen sites, the explorer releases one at a time
// and waits for exact quiescence (synctest.Wait).
package bubble

import (
	"bytes"
	"fmt"
	"runtime"
	"sort"
	"strconv"
	"sync"

	"github.com/wi1dcard/fingerproxy/pkg/vhook"
	"verif/memnet"
)

type Parked struct {
	Site string
	Key  any
	Who  string // name of the goroutine (NameCurrent) or of the key (NameKey), "" if unknown
	seq  int
	ch   chan struct{}
}

func (p *Parked) ID() string { return p.Site + "@" + p.Who }

type Gates struct {
	mu     sync.Mutex
	sites  map[string]bool
	parked []*Parked
	gnames map[uint64]string
	knames map[any]string
	seq    int
	off    bool
	Passed map[string]int // how many times each site was passed (parked or not)
	// Filter, if set, decides whether a goroutine reaching a listed site parks (who as in Parked.Who)
	Filter func(site, who string) bool
}

// NewGates installs a gate handler that parks goroutines at the given sites.
func NewGates(sites ...string) *Gates {
	g := &Gates{sites: map[string]bool{}, gnames: map[uint64]string{}, knames: map[any]string{}, Passed: map[string]int{}}
	for _, s := range sites {
		g.sites[s] = true
	}
	vhook.SetHandler(g.handle)
	return g
}

func goid() uint64 {
	var buf [64]byte
	b := buf[:runtime.Stack(buf[:], false)]
	b = bytes.TrimPrefix(b, []byte("goroutine "))
	i := bytes.IndexByte(b, ' ')
	n, _ := strconv.ParseUint(string(b[:i]), 10, 64)
	return n
}

// NameCurrent names the calling goroutine; gates it parks at carry the name.
func (g *Gates) NameCurrent(name string) {
	id := goid()
	g.mu.Lock()
	g.gnames[id] = name
	g.mu.Unlock()
}

// NameKey names a gate key (e.g. a connection); used when the goroutine has no name.
func (g *Gates) NameKey(key any, name string) {
	g.mu.Lock()
	g.knames[key] = name
	g.mu.Unlock()
}

func (g *Gates) handle(site string, key any) {
	g.mu.Lock()
	g.Passed[site]++
	if g.off || !g.sites[site] {
		g.mu.Unlock()
		return
	}
	who := g.gnames[goid()]
	if who == "" {
		func() {
			defer func() { recover() }() // unhashable key
			who = g.knames[key]
		}()
	}
	if g.Filter != nil && !g.Filter(site, who) {
		g.mu.Unlock()
		return
	}
	g.seq++
	p := &Parked{Site: site, Key: key, Who: who, seq: g.seq, ch: make(chan struct{})}
	g.parked = append(g.parked, p)
	g.mu.Unlock()
	<-p.ch
}

// Parked returns the goroutines currently parked, in canonical order.
func (g *Gates) ParkedList() []*Parked {
	g.mu.Lock()
	defer g.mu.Unlock()
	out := append([]*Parked(nil), g.parked...)
	sort.SliceStable(out, func(i, j int) bool {
		if out[i].ID() != out[j].ID() {
			return out[i].ID() < out[j].ID()
		}
		return out[i].seq < out[j].seq
	})
	return out
}

// Rename re-resolves the names of parked goroutines whose key was named after they parked.
func (g *Gates) Rename() {
	g.mu.Lock()
	defer g.mu.Unlock()
	for _, p := range g.parked {
		if p.Who == "" {
			func() {
				defer func() { recover() }()
				p.Who = g.knames[p.Key]
			}()
		}
	}
}

// Release lets one parked goroutine continue.
func (g *Gates) Release(p *Parked) {
	g.mu.Lock()
	for i, q := range g.parked {
		if q == p {
			g.parked = append(g.parked[:i], g.parked[i+1:]...)
			g.mu.Unlock()
			close(p.ch)
			return
		}
	}
	g.mu.Unlock()
	panic(fmt.Sprintf("release of a goroutine that is not parked: %s", p.ID()))
}

// Open disables all gates and releases everything parked (clean-up).
func (g *Gates) Open() {
	g.mu.Lock()
	g.off = true
	ps := g.parked
	g.parked = nil
	g.mu.Unlock()
	for _, p := range ps {
		close(p.ch)
	}
}

// HookMemnet also routes memnet's environment-boundary scheduling points through these gates.
func (g *Gates) HookMemnet() {
	h := g.handle
	memnet.Hook.Store(&h)
}

// Uninstall removes the handler.
func (g *Gates) Uninstall() { g.Open(); vhook.SetHandler(nil); memnet.Hook.Store(nil) }
