//go:build verif

package bubble

import (
	"sort"
	"testing/synctest"

	"verif/mc"
)

// Step is one environment action of an actor.
type Step struct {
	Name    string
	Do      func()
	Enabled func() bool // nil = always
}

// Actor is a sequential script of environment steps; goroutines of the code
// under test that park at gates with Who == Name belong to the same actor.
type Actor struct {
	Name  string
	Steps []Step
	pc    int
}

func (a *Actor) Done() bool { return a.pc >= len(a.Steps) }
func (a *Actor) PC() int    { return a.pc }

type action struct {
	actor string
	label string
	run   func()
}

// Schedule drives one execution: at every quiescent state it lists the enabled
// actions in canonical order (actions of the actor that ran last first, then
// the other actors in the given order; within an actor parked gates first, then
// its next environment step), asks the chooser, runs the action, waits for
// quiescence. Cost model: alternative 0 costs nothing; any other alternative
// costs 1 when the last actor still has an enabled action (a preemption or a
// reordering inside the actor) and nothing when the last actor is blocked or done.
// onQuiescent (optional) is called at every quiescent state before choosing; if it
// returns false the execution stops.
func Schedule(c *mc.Chooser, gates *Gates, actors []*Actor, onQuiescent func() bool) {
	schedule(c, gates, actors, onQuiescent, true)
}

// ScheduleStrict is Schedule with the stricter cost model for environment
// actors: every alternative other than the canonical default costs 1, also
// when the actor that ran last has nothing enabled (so the orders of
// independent actors are not permuted for free).
func ScheduleStrict(c *mc.Chooser, gates *Gates, actors []*Actor, onQuiescent func() bool) {
	schedule(c, gates, actors, onQuiescent, false)
}

func schedule(c *mc.Chooser, gates *Gates, actors []*Actor, onQuiescent func() bool, freeSwitch bool) {
	last := ""
	for {
		synctest.Wait()
		if onQuiescent != nil && !onQuiescent() {
			return
		}
		var acts []action
		var parked []*Parked
		if gates != nil {
			parked = gates.ParkedList()
		}
		known := map[string]bool{}
		order := make([]*Actor, 0, len(actors))
		for _, a := range actors {
			known[a.Name] = true
			if a.Name == last {
				order = append(order, a)
			}
		}
		for _, a := range actors {
			if a.Name != last {
				order = append(order, a)
			}
		}
		addGates := func(who string) {
			for _, p := range parked {
				if p.Who == who {
					p := p
					acts = append(acts, action{who, "release " + p.ID(), func() { gates.Release(p) }})
				}
			}
		}
		for _, a := range order {
			addGates(a.Name)
			if !a.Done() {
				st := a.Steps[a.pc]
				if st.Enabled == nil || st.Enabled() {
					a := a
					acts = append(acts, action{a.Name, a.Name + ": " + st.Name, func() { a.pc++; st.Do() }})
				}
			}
		}
		// gates of goroutines that belong to no actor
		var others []string
		seen := map[string]bool{}
		for _, p := range parked {
			if !known[p.Who] && !seen[p.Who] {
				seen[p.Who] = true
				others = append(others, p.Who)
			}
		}
		sort.Strings(others)
		if last != "" && seen[last] { // last actor was an unowned goroutine: keep it first
			addGates(last)
		}
		for _, w := range others {
			if w != last || !seen[last] {
				addGates(w)
			}
		}
		if len(acts) == 0 {
			return
		}
		labels := make([]string, len(acts))
		costs := make([]int, len(acts))
		lastEnabled := acts[0].actor == last
		for i, a := range acts {
			labels[i] = a.label
			if i > 0 && (lastEnabled || !freeSwitch) {
				costs[i] = 1
			}
		}
		k := c.Choose(labels, costs)
		last = acts[k].actor
		acts[k].run()
	}
}
