//go:build verif

package bubble

import (
	"bytes"
	"fmt"
	"io"
	"net/http"
	"sort"
	"strings"
	"sync"
)

// RecReq is a request as received by the backend.
type RecReq struct {
	Method, Path, RawQuery, Host, Proto string
	Header                              http.Header
	Body                                []byte
	Trailer                             http.Header
	ContentLength                       int64
	TransferEncoding                    []string
}

// Values returns all values under a header name, matched case-insensitively over the raw map.
func (r *RecReq) Values(name string) []string {
	var out []string
	var keys []string
	for k := range r.Header {
		if strings.EqualFold(k, name) {
			keys = append(keys, k)
		}
	}
	sort.Strings(keys)
	for _, k := range keys {
		out = append(out, r.Header[k]...)
	}
	return out
}

// Resp is a scripted backend response.
type Resp struct {
	Status  int
	Header  http.Header
	Body    []byte
	Trailer http.Header
	// Tunnel: the backend's side of an upgraded connection (Status 101): the response body is this read-write-closer,
	// which is what httputil.ReverseProxy asks of a RoundTripper that accepts a protocol upgrade.
	Tunnel io.ReadWriteCloser
}

// EchoTunnel is a backend side of an upgraded connection that sends back what it is sent, prefixed with "echo:".
type EchoTunnel struct {
	ch     chan []byte
	closed chan struct{}
	once   sync.Once
	rest   []byte
}

func NewEchoTunnel() *EchoTunnel {
	return &EchoTunnel{ch: make(chan []byte, 16), closed: make(chan struct{})}
}

func (e *EchoTunnel) Write(b []byte) (int, error) {
	select {
	case <-e.closed:
		return 0, io.ErrClosedPipe
	case e.ch <- append([]byte("echo:"), b...):
		return len(b), nil
	}
}

func (e *EchoTunnel) Read(b []byte) (int, error) {
	if len(e.rest) == 0 {
		select {
		case <-e.closed:
			return 0, io.EOF
		case e.rest = <-e.ch:
		}
	}
	n := copy(b, e.rest)
	e.rest = e.rest[n:]
	return n, nil
}

func (e *EchoTunnel) Close() error { e.once.Do(func() { close(e.closed) }); return nil }

// RecBackend is an http.RoundTripper that records every request completely and
// answers with a scripted response. Used as httputil.ReverseProxy.Transport.
type RecBackend struct {
	mu      sync.Mutex
	Reqs    []*RecReq
	Respond func(*RecReq) *Resp // nil: 200 "backend:<path>"
	Hold    func(*RecReq)       // optional: called (may block) before responding
	// Early: requests for which the backend answers without reading the body (a 401 / 413 that does not wait for the
	// upload); the body recorded for them is empty.
	Early func(*http.Request) bool
}

func (b *RecBackend) RoundTrip(req *http.Request) (*http.Response, error) {
	rr := &RecReq{Method: req.Method, Path: req.URL.EscapedPath(), RawQuery: req.URL.RawQuery, Host: req.Host, Proto: req.Proto,
		Header: req.Header.Clone(), ContentLength: req.ContentLength, TransferEncoding: append([]string(nil), req.TransferEncoding...)}
	if rr.Host == "" {
		rr.Host = req.URL.Host
	}
	if req.Body != nil && !(b.Early != nil && b.Early(req)) {
		body, err := io.ReadAll(req.Body)
		req.Body.Close()
		if err != nil {
			return nil, err
		}
		rr.Body = body
	}
	if len(req.Trailer) > 0 {
		rr.Trailer = req.Trailer.Clone()
	}
	b.mu.Lock()
	b.Reqs = append(b.Reqs, rr)
	respond, hold := b.Respond, b.Hold
	b.mu.Unlock()
	// like net/http's Transport: a request whose context is already done is not carried out (it stays recorded: it did
	// reach the proxy's handler)
	if err := req.Context().Err(); err != nil {
		return nil, err
	}
	if hold != nil {
		hold(rr)
	}
	rs := &Resp{Status: 200, Body: []byte("backend:" + rr.Path)}
	if respond != nil {
		if r := respond(rr); r != nil {
			rs = r
		}
	}
	h := rs.Header.Clone()
	if h == nil {
		h = http.Header{}
	}
	resp := &http.Response{StatusCode: rs.Status, Status: fmt.Sprintf("%d %s", rs.Status, http.StatusText(rs.Status)),
		Proto: "HTTP/1.1", ProtoMajor: 1, ProtoMinor: 1, Header: h, Body: io.NopCloser(bytes.NewReader(rs.Body)),
		ContentLength: int64(len(rs.Body)), Request: req}
	if len(rs.Trailer) > 0 {
		resp.Trailer = rs.Trailer.Clone()
		resp.ContentLength = -1
	}
	if rs.Tunnel != nil {
		resp.Body = rs.Tunnel
		resp.ContentLength = 0
	}
	return resp, nil
}

// Forget drops the recorded requests (a volume test must not be charged for the recording).
func (b *RecBackend) Forget() {
	b.mu.Lock()
	b.Reqs = nil
	b.mu.Unlock()
}

func (b *RecBackend) Count() int {
	b.mu.Lock()
	defer b.mu.Unlock()
	return len(b.Reqs)
}

func (b *RecBackend) All() []*RecReq {
	b.mu.Lock()
	defer b.mu.Unlock()
	return append([]*RecReq(nil), b.Reqs...)
}

// ByPath returns the recorded requests with the given path.
func (b *RecBackend) ByPath(p string) []*RecReq {
	var out []*RecReq
	for _, r := range b.All() {
		if r.Path == p {
			out = append(out, r)
		}
	}
	return out
}
