//go:build verif

package bubble

import (
	"bufio"
	"bytes"
	"context"
	"crypto/tls"
	"fmt"
	"io"
	"net"
	"net/http"
	"sync"

	utls "github.com/refraction-networking/utls"
	"verif/memnet"
	"verif/ref/h2wire"
)

// Hello describes the ClientHello a client sends.
type Hello struct {
	Name   string
	ID     *utls.ClientHelloID // nil: stock crypto/tls client
	ALPN   []string            // nil: no ALPN extension
	SNI    string              // "": no SNI
	MinVer uint16
	MaxVer uint16
	Mutate func(*utls.ClientHelloSpec)
	Manual bool                      // bytes written by the client are staged; the harness delivers them (Raw.Deliver)
	Prep   func(cl, sv *memnet.Conn) // runs on both ends before the proxy can accept the connection
	Rand   io.Reader                 // source of the client's randomness (nil: crypto/rand); a fixed reader gives every hello the same client random
	// Filter may rewrite the bytes the client puts on the wire (off = offset of b[0] in the client's byte stream); what it
	// returns is what is sent AND what counts as "the bytes the client sent"
	Filter func(off int64, b []byte) []byte
}

// recConn records everything the client writes (ground truth for "the ClientHello the client sent").
type recConn struct {
	net.Conn
	mu     sync.Mutex
	sent   []byte // the first recLimit bytes
	off    int64  // bytes written so far
	filter func(off int64, b []byte) []byte
}

// recLimit bounds what a client remembers of its own output (the hello and the first exchanges are what the oracles
// read back; a volume test must not be charged for the harness' own copy).
const recLimit = 1 << 20

func (r *recConn) Write(b []byte) (int, error) {
	r.mu.Lock()
	out := b
	if r.filter != nil {
		out = r.filter(r.off, append([]byte(nil), b...))
	}
	r.off += int64(len(out))
	if len(r.sent) < recLimit {
		r.sent = append(r.sent, out...)
	}
	r.mu.Unlock()
	if _, err := r.Conn.Write(out); err != nil {
		return 0, err
	}
	return len(b), nil
}

// Client is one TLS client of the stack.
type Client struct {
	Name   string
	Raw    *memnet.Conn // client end
	Srv    *memnet.Conn // server end (what the proxy accepted)
	rec    *recConn
	TLS    net.Conn
	mu     sync.Mutex
	hsDone bool
	hsErr  error
	Proto  string
	rbuf   []byte
	rerr   error
	parser h2wire.Parser
	Enc    *h2wire.Encoder
	Dec    *h2wire.Decoder
	closed bool
	cancel context.CancelFunc
	resume chan struct{} // non-nil while reads are paused
}

// Connect dials the stack's listener (the proxy sees addr as RemoteAddr) and
// starts the TLS handshake in a client goroutine. Call synctest.Wait() to let it finish.
func (s *Stack) Connect(name string, addr net.Addr, h Hello) *Client {
	if addr == nil {
		s.nextPort++
		addr = memnet.TCPAddr("10.0.0.9", s.nextPort)
	}
	cl, sv, err := s.Ln.DialWith(addr, func(cl, sv *memnet.Conn) {
		if h.Manual {
			cl.SetManual(true)
		}
		if h.Prep != nil {
			h.Prep(cl, sv)
		}
	})
	c := &Client{Name: name, Enc: h2wire.NewEncoder(), Dec: h2wire.NewDecoder()}
	if err != nil {
		c.hsDone, c.hsErr = true, err
		return c
	}
	c.Raw, c.Srv = cl, sv
	c.rec = &recConn{Conn: cl, filter: h.Filter}
	s.clients = append(s.clients, c)
	ctx, cancel := context.WithCancel(context.Background())
	c.cancel = cancel
	if h.ID == nil {
		cfg := &tls.Config{InsecureSkipVerify: true, ServerName: h.SNI, NextProtos: h.ALPN, MinVersion: h.MinVer, MaxVersion: h.MaxVer, Rand: h.Rand}
		tc := tls.Client(c.rec, cfg)
		c.TLS = tc
		go func() {
			err := tc.HandshakeContext(ctx)
			c.mu.Lock()
			c.hsDone, c.hsErr = true, err
			if err == nil {
				c.Proto = tc.ConnectionState().NegotiatedProtocol
			}
			c.mu.Unlock()
			if err == nil {
				c.readLoop()
			}
		}()
		return c
	}
	cfg := &utls.Config{InsecureSkipVerify: true, ServerName: h.SNI, NextProtos: h.ALPN, MinVersion: h.MinVer, MaxVersion: h.MaxVer, Rand: h.Rand}
	uc := utls.UClient(c.rec, cfg, utls.HelloCustom)
	spec, err := utls.UTLSIdToSpec(*h.ID)
	if err != nil {
		panic(err)
	}
	// ALPN / SNI of the preset follow the Hello description
	var exts []utls.TLSExtension
	for _, e := range spec.Extensions {
		switch x := e.(type) {
		case *utls.ALPNExtension:
			if h.ALPN == nil {
				continue
			}
			x.AlpnProtocols = h.ALPN
		case *utls.SNIExtension:
			if h.SNI == "" {
				continue
			}
		case *utls.ApplicationSettingsExtension:
			if h.ALPN == nil {
				continue
			}
		}
		exts = append(exts, e)
	}
	spec.Extensions = exts
	if h.Mutate != nil {
		h.Mutate(&spec)
	}
	if err := uc.ApplyPreset(&spec); err != nil {
		panic(fmt.Sprintf("utls preset %s: %v", h.Name, err))
	}
	c.TLS = uc
	go func() {
		err := uc.HandshakeContext(ctx)
		c.mu.Lock()
		c.hsDone, c.hsErr = true, err
		if err == nil {
			c.Proto = uc.ConnectionState().NegotiatedProtocol
		}
		c.mu.Unlock()
		if err == nil {
			c.readLoop()
		}
	}()
	return c
}

// PauseReads makes the client stop reading from its connection (a peer that does not drain its socket): with a
// write capacity set on the proxy's side of the connection (Srv.SetWriteCap) the proxy's writes then block.
func (c *Client) PauseReads() {
	c.mu.Lock()
	if c.resume == nil {
		c.resume = make(chan struct{})
	}
	c.mu.Unlock()
}

// ResumeReads lets the client read again.
func (c *Client) ResumeReads() {
	c.mu.Lock()
	if c.resume != nil {
		close(c.resume)
		c.resume = nil
	}
	c.mu.Unlock()
}

func (c *Client) readLoop() {
	buf := make([]byte, 65536)
	for {
		c.mu.Lock()
		r := c.resume
		c.mu.Unlock()
		if r != nil {
			<-r
			continue
		}
		n, err := c.TLS.Read(buf)
		c.mu.Lock()
		c.rbuf = append(c.rbuf, buf[:n]...)
		if err != nil {
			c.rerr = err
			c.mu.Unlock()
			return
		}
		c.mu.Unlock()
	}
}

// Handshake returns (done, error).
func (c *Client) Handshake() (bool, error) {
	c.mu.Lock()
	defer c.mu.Unlock()
	return c.hsDone, c.hsErr
}

// ReadErr is the error that ended the client's read loop (nil while the connection is readable).
func (c *Client) ReadErr() error {
	c.mu.Lock()
	defer c.mu.Unlock()
	return c.rerr
}

// Sent returns all bytes the client wrote to the network so far.
func (c *Client) Sent() []byte {
	c.rec.mu.Lock()
	defer c.rec.mu.Unlock()
	return append([]byte(nil), c.rec.sent...)
}

// FirstRecord returns the first TLS record the client sent (5-byte header + declared length), nil if incomplete.
func (c *Client) FirstRecord() []byte {
	b := c.Sent()
	if len(b) < 5 {
		return nil
	}
	n := 5 + int(b[3])<<8 | int(b[4])
	n = 5 + (int(b[3])<<8 | int(b[4]))
	if len(b) < n {
		return nil
	}
	return b[:n]
}

// Write sends application bytes over TLS.
func (c *Client) Write(b []byte) error {
	// never enter TLS Write before the handshake has finished: it would call Handshake and wait on a real
	// mutex held by the handshake goroutine (not a durable block -> synctest.Wait would hang)
	c.mu.Lock()
	ok := c.TLS != nil && c.hsDone && c.hsErr == nil && !c.closed
	c.mu.Unlock()
	if !ok {
		return ErrNotConnected
	}
	_, err := c.TLS.Write(b)
	return err
}

// ErrNotConnected is returned by Write when the TLS handshake has not completed (or the client was closed).
var ErrNotConnected = fmt.Errorf("client not connected")

// Close closes the client's connection (TLS close_notify, then the transport).
func (c *Client) Close() {
	c.mu.Lock()
	if c.closed {
		c.mu.Unlock()
		return
	}
	c.closed = true
	if c.resume != nil {
		close(c.resume)
		c.resume = nil
	}
	c.mu.Unlock()
	if c.cancel != nil {
		c.cancel()
	}
	if c.Raw != nil {
		c.Raw.Close()
	}
}

// Abort closes the transport without a TLS close_notify, optionally as a reset.
func (c *Client) Abort(reset error) {
	c.mu.Lock()
	c.closed = true
	if c.resume != nil {
		close(c.resume)
		c.resume = nil
	}
	c.mu.Unlock()
	if c.cancel != nil {
		c.cancel()
	}
	if c.Raw == nil {
		return // the dial was refused: there is no connection
	}
	if reset != nil {
		c.Raw.Reset(reset)
	} else {
		c.Raw.Close()
	}
}

// RawWrite writes bytes on the transport (no TLS); a refused dial is ignored.
func (c *Client) RawWrite(b []byte) {
	if c.Raw != nil {
		c.Raw.Write(b)
	}
}

// Deliver hands up to n staged bytes to the proxy (manual mode); a refused dial is ignored.
func (c *Client) Deliver(n int) {
	if c.Raw != nil {
		c.Raw.Deliver(n)
	}
}

// TakeH1Responses parses and consumes every complete HTTP/1.1 response received so far.
func (c *Client) TakeH1Responses(methods ...string) []*H1Resp {
	c.mu.Lock()
	defer c.mu.Unlock()
	var out []*H1Resp
	for i := 0; len(c.rbuf) > 0; i++ {
		m := "GET"
		if i < len(methods) {
			m = methods[i]
		}
		br := bufio.NewReader(bytes.NewReader(c.rbuf))
		resp, err := http.ReadResponse(br, &http.Request{Method: m})
		if err != nil {
			break
		}
		body, err := io.ReadAll(resp.Body)
		if err != nil {
			break // incomplete
		}
		used := len(c.rbuf) - br.Buffered()
		// bufio may have read ahead: recompute consumed bytes
		rem, _ := io.ReadAll(br)
		used = len(c.rbuf) - len(rem)
		out = append(out, &H1Resp{Status: resp.StatusCode, Header: resp.Header, Body: body, Trailer: resp.Trailer, Close: resp.Close})
		c.rbuf = c.rbuf[used:]
	}
	return out
}

type H1Resp struct {
	Status  int
	Header  http.Header
	Body    []byte
	Trailer http.Header
	Close   bool
}

// Pending returns the unparsed bytes received.
func (c *Client) Pending() []byte {
	c.mu.Lock()
	defer c.mu.Unlock()
	return append([]byte(nil), c.rbuf...)
}

// TakeFrames parses and consumes the HTTP/2 frames received so far.
func (c *Client) TakeFrames() []h2wire.Frame {
	c.mu.Lock()
	b := c.rbuf
	c.rbuf = nil
	c.mu.Unlock()
	return c.parser.Feed(b)
}

// H2Resp is a decoded HTTP/2 response.
type H2Resp struct {
	Stream  uint32
	Status  string
	Header  []h2wire.HF
	Body    []byte
	Trailer []h2wire.HF
	Ended   bool
	RST     *uint32
}

// H2Collector assembles responses from frames.
type H2Collector struct {
	Resps    map[uint32]*H2Resp
	GoAway   *h2wire.Frame
	Settings int
	cont     uint32
	block    []byte
	endS     bool
	Others   []h2wire.Frame
}

func NewH2Collector() *H2Collector { return &H2Collector{Resps: map[uint32]*H2Resp{}} }

func (k *H2Collector) Add(dec *h2wire.Decoder, fs []h2wire.Frame) {
	for _, f := range fs {
		f := f
		switch f.Type {
		case h2wire.THeaders, h2wire.TContinuation:
			if f.Type == h2wire.THeaders {
				k.block = nil
				k.cont = f.Stream
				k.endS = f.Flags&h2wire.FEndStream != 0
			}
			k.block = append(k.block, f.HeaderBlockFragment()...)
			if f.Flags&h2wire.FEndHeaders != 0 {
				hs, _ := dec.Decode(k.block)
				r := k.Resps[k.cont]
				if r == nil {
					r = &H2Resp{Stream: k.cont}
					k.Resps[k.cont] = r
				}
				if r.Status == "" {
					for _, h := range hs {
						if h.Name == ":status" {
							r.Status = h.Value
						} else {
							r.Header = append(r.Header, h)
						}
					}
					if r.Status != "" && r.Status[0] == '1' { // informational
						r.Status = ""
						r.Header = nil
					}
				} else {
					r.Trailer = hs
				}
				if k.endS {
					r.Ended = true
				}
			}
		case h2wire.TData:
			r := k.Resps[f.Stream]
			if r == nil {
				r = &H2Resp{Stream: f.Stream}
				k.Resps[f.Stream] = r
			}
			d, _ := f.DataBody()
			r.Body = append(r.Body, d...)
			if f.Flags&h2wire.FEndStream != 0 {
				r.Ended = true
			}
		case h2wire.TRSTStream:
			r := k.Resps[f.Stream]
			if r == nil {
				r = &H2Resp{Stream: f.Stream}
				k.Resps[f.Stream] = r
			}
			code := f.RSTCode()
			r.RST = &code
		case h2wire.TGoAway:
			k.GoAway = &f
		case h2wire.TSettings:
			k.Settings++
		default:
			k.Others = append(k.Others, f)
		}
	}
}

// Req is a request a harness client sends.
type Req struct {
	Method, Path, Host string
	Scheme             string      // h2 only; default "https"
	Lines              [][2]string // extra header lines in order (names as written; lower-cased for h2)
	Body               []byte
	NoAuthority        bool // h2 only: no :authority pseudo-header, the host travels in a "host" field (RFC 9113 section 8.3.1)
}

// SendH1 writes the request as HTTP/1.1 text (Content-Length framing when there is a body).
func (c *Client) SendH1(r Req) {
	var sb bytes.Buffer
	m := r.Method
	if m == "" {
		m = "GET"
	}
	fmt.Fprintf(&sb, "%s %s HTTP/1.1\r\nHost: %s\r\n", m, r.Path, r.Host)
	for _, l := range r.Lines {
		fmt.Fprintf(&sb, "%s: %s\r\n", l[0], l[1])
	}
	if len(r.Body) > 0 {
		fmt.Fprintf(&sb, "Content-Length: %d\r\n", len(r.Body))
	}
	sb.WriteString("\r\n")
	sb.Write(r.Body)
	c.Write(sb.Bytes())
}

// StartH2 sends the client preface and the given SETTINGS (ACKs are not sent automatically).
func (c *Client) StartH2(ss ...h2wire.Setting) {
	c.Write(append([]byte(h2wire.Preface), h2wire.Settings(ss...)...))
}

// SendH2 writes HEADERS (+DATA) for the request on the given stream.
func (c *Client) SendH2(stream uint32, r Req) {
	m := r.Method
	if m == "" {
		m = "GET"
	}
	sch := r.Scheme
	if sch == "" {
		sch = "https"
	}
	fs := []h2wire.HF{{Name: ":method", Value: m}, {Name: ":scheme", Value: sch}, {Name: ":authority", Value: r.Host}, {Name: ":path", Value: r.Path}}
	if r.NoAuthority {
		fs = []h2wire.HF{{Name: ":method", Value: m}, {Name: ":scheme", Value: sch}, {Name: ":path", Value: r.Path}, {Name: "host", Value: r.Host}}
	}
	for _, l := range r.Lines {
		fs = append(fs, h2wire.HF{Name: asciiLower(l[0]), Value: l[1]})
	}
	end := len(r.Body) == 0
	out := h2wire.Headers(stream, c.Enc.Block(fs...), end, true, nil, -1)
	if !end {
		out = append(out, h2wire.Data(stream, r.Body, true, -1)...)
	}
	c.Write(out)
}

func asciiLower(s string) string {
	b := []byte(s)
	for i, ch := range b {
		if ch >= 'A' && ch <= 'Z' {
			b[i] = ch + 32
		}
	}
	return string(b)
}

// DialRaw opens a connection without any TLS client: the harness writes raw bytes with c.Raw.Write.
func (s *Stack) DialRaw(name string, addr net.Addr) *Client { return s.DialRawWith(name, addr, nil) }

// DialRawWith is DialRaw with a preparation step on both ends before the proxy can accept the connection.
func (s *Stack) DialRawWith(name string, addr net.Addr, prep func(cl, sv *memnet.Conn)) *Client {
	if addr == nil {
		s.nextPort++
		addr = memnet.TCPAddr("10.0.0.9", s.nextPort)
	}
	cl, sv, err := s.Ln.DialWith(addr, prep)
	c := &Client{Name: name}
	if err != nil {
		c.hsDone, c.hsErr = true, err
		return c
	}
	c.Raw, c.Srv = cl, sv
	c.rec = &recConn{Conn: cl}
	s.clients = append(s.clients, c)
	return c
}

// FixedRand is a deterministic "random" source: every ClientHello built with it carries the same client random.
type FixedRand struct{}

func (FixedRand) Read(p []byte) (int, error) {
	for i := range p {
		p[i] = byte(0x42 + i%7)
	}
	return len(p), nil
}
