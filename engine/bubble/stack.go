//go:build verif

package bubble

import (
	"context"
	"crypto/tls"
	"io"
	"log"
	"net"
	"net/http"
	"net/http/httputil"
	"net/url"
	"sync"
	"sync/atomic"
	"testing/synctest"
	"time"

	"github.com/prometheus/client_golang/prometheus"
	"github.com/wi1dcard/fingerproxy/pkg/proxyserver"
	"github.com/wi1dcard/fingerproxy/pkg/reverseproxy"
	"verif/memnet"
)

// StackOpts configures a full proxy stack inside the bubble.
type StackOpts struct {
	Injectors        []reverseproxy.HeaderInjector
	OwnHTTPServer    bool // replace Server.HTTPServer by a caller-supplied http.Server (same handler) after NewServer
	PreserveHost     bool
	Probe            func(*http.Request) bool
	To               string // backend URL (default http://backend.internal:8080)
	TLS              *tls.Config
	HandshakeTimeout time.Duration
	Handler          http.Handler // overrides the reverse-proxy handler
	Transport        http.RoundTripper
	// Build, if set, constructs the server (e.g. the binary's defaultProxyServer through the root export shim).
	Build     func(ctx context.Context, h http.Handler, tc *tls.Config) *proxyserver.Server
	Configure func(*proxyserver.Server)
	NoServe   bool // do not start Serve (caller does)
	// BaseCtx, if set, is the parent of the server's context (a library caller's own context, which may carry values)
	BaseCtx context.Context
	// EndByDeadline: Stack.Cancel ends the server's context the way a deadline does (Err() == context.DeadlineExceeded)
	// instead of by cancellation - a library caller's context.WithTimeout
	EndByDeadline bool
	// Warm: before NewStack returns, one HTTP/1.1 and one HTTP/2 client are served and gone. Whatever a server starts
	// lazily with its first connection and keeps for its own lifetime (a statistics goroutine, a pool) then exists
	// before a check takes its baseline: a goroutine census is to find what a CONNECTION leaves behind.
	Warm bool
}

// deadlineCtx is a context whose end the harness decides and whose error is context.DeadlineExceeded.
type deadlineCtx struct {
	context.Context
	done  chan struct{}
	ended atomic.Bool
}

func (d *deadlineCtx) Done() <-chan struct{} { return d.done }
func (d *deadlineCtx) Err() error {
	if d.ended.Load() {
		return context.DeadlineExceeded
	}
	return nil
}
func (d *deadlineCtx) end() {
	if d.ended.CompareAndSwap(false, true) {
		close(d.done)
	}
}

// Stack is proxyserver.Server + reverseproxy handler + recording backend on an in-memory listener.
type Stack struct {
	Ln       *memnet.Listener
	Server   *proxyserver.Server
	Handler  http.Handler
	RP       *reverseproxy.HTTPHandler
	Backend  *RecBackend
	Registry *prometheus.Registry
	Cancel   context.CancelFunc
	Ctx      context.Context

	mu        sync.Mutex
	ServeErr  error
	Returned  bool
	ServeDone chan struct{}
	clients   []*Client
	nextPort  int
	Log       *logBuf
}

type logBuf struct {
	mu sync.Mutex
	b  []byte
}

func (l *logBuf) Write(p []byte) (int, error) {
	l.mu.Lock()
	if len(l.b) < 1<<20 {
		l.b = append(l.b, p...)
	}
	l.mu.Unlock()
	return len(p), nil
}
func (l *logBuf) String() string { l.mu.Lock(); defer l.mu.Unlock(); return string(l.b) }

// DefaultTLS is the TLS configuration of the binary (fingerproxy.defaultTLSConfig) with a static certificate.
func DefaultTLS() *tls.Config {
	return &tls.Config{
		NextProtos:   []string{"h2", "http/1.1"},
		MinVersion:   tls.VersionTLS12,
		MaxVersion:   tls.VersionTLS13,
		Certificates: []tls.Certificate{ServerCert()},
	}
}

func NewStack(o StackOpts) *Stack {
	s := &Stack{Ln: memnet.NewListener(), Backend: &RecBackend{}, Registry: prometheus.NewRegistry(), ServeDone: make(chan struct{}), nextPort: 50000, Log: &logBuf{}}
	if o.To == "" {
		o.To = "http://backend.internal:8080"
	}
	to, err := url.Parse(o.To)
	if err != nil {
		panic(err)
	}
	s.Handler = o.Handler
	if s.Handler == nil {
		tr := o.Transport
		if tr == nil {
			tr = s.Backend
		}
		lg := log.New(s.Log, "[rp] ", 0)
		s.RP = reverseproxy.NewHTTPHandler(to, &httputil.ReverseProxy{Transport: tr, ErrorLog: lg, FlushInterval: 100 * time.Millisecond}, o.Injectors)
		s.RP.PreserveHost = o.PreserveHost
		s.RP.IsProbeRequest = o.Probe
		s.Handler = s.RP
	}
	tc := o.TLS
	if tc == nil {
		tc = DefaultTLS()
	}
	base := o.BaseCtx
	if base == nil {
		base = context.Background()
	}
	if o.EndByDeadline {
		d := &deadlineCtx{Context: base, done: make(chan struct{})}
		s.Ctx, s.Cancel = d, d.end
	} else {
		s.Ctx, s.Cancel = context.WithCancel(base)
	}
	if o.Build != nil {
		s.Server = o.Build(s.Ctx, s.Handler, tc)
	} else {
		s.Server = proxyserver.NewServer(s.Ctx, s.Handler, tc)
		s.Server.TLSHandshakeTimeout = o.HandshakeTimeout
	}
	if o.OwnHTTPServer {
		// a library user brings an http.Server of its own (the field's comment invites that), with the same handler
		s.Server.HTTPServer = &http.Server{Handler: s.Handler, ReadHeaderTimeout: 30 * time.Second, MaxHeaderBytes: 1 << 20}
	}
	s.Server.ErrorLog = log.New(s.Log, "[ps] ", 0)
	s.Server.HTTPServer.ErrorLog = log.New(s.Log, "[http] ", 0)
	s.Server.MetricsRegistry = s.Registry
	if o.Configure != nil {
		o.Configure(s.Server)
	}
	if !o.NoServe {
		s.StartServe()
		if o.Warm {
			synctest.Wait()
			for _, alpn := range []string{"http/1.1", "h2"} {
				c := s.Connect("warmup-"+alpn, nil, Hello{Name: "warmup-" + alpn, ALPN: []string{alpn}, SNI: "localhost"})
				synctest.Wait()
				if done, err := c.Handshake(); done && err == nil {
					if alpn == "h2" {
						c.StartH2()
						c.SendH2(1, Req{Path: "/warmup", Host: "localhost"})
					} else {
						c.SendH1(Req{Path: "/warmup", Host: "localhost"})
					}
					synctest.Wait()
				}
				c.Close()
				synctest.Wait()
			}
			// the server's own timers for these two connections (HTTP/2 close delay, idle timers) run out
			time.Sleep(5 * time.Second)
			synctest.Wait()
			s.Backend.Forget() // the check's own counts start at zero
		}
	}
	return s
}

func (s *Stack) StartServe() {
	go func() {
		err := s.Server.Serve(s.Ln)
		s.mu.Lock()
		s.ServeErr = err
		s.Returned = true
		s.mu.Unlock()
		close(s.ServeDone)
	}()
}

// ServeReturned reports whether Serve has returned, and its error.
func (s *Stack) ServeReturned() (bool, error) {
	s.mu.Lock()
	defer s.mu.Unlock()
	return s.Returned, s.ServeErr
}

// Clients returns the clients created so far (in creation order).
func (s *Stack) Clients() []*Client { return append([]*Client(nil), s.clients...) }

// Shutdown closes every client, cancels the server context and waits for Serve to return.
func (s *Stack) Shutdown() {
	for _, c := range s.clients {
		c.Close()
	}
	s.Cancel()
	<-s.ServeDone
}

// Counter returns requests_total{ok,negotiated_protocol} values keyed "ok/proto".
func (s *Stack) Counter() map[string]float64 {
	out := map[string]float64{}
	mfs, err := s.Registry.Gather()
	if err != nil {
		return out
	}
	for _, mf := range mfs {
		if mf.GetName() != "fingerproxy_requests_total" {
			continue
		}
		for _, m := range mf.GetMetric() {
			var ok, proto string
			for _, l := range m.GetLabel() {
				switch l.GetName() {
				case "ok":
					ok = l.GetValue()
				case "negotiated_protocol":
					proto = l.GetValue()
				}
			}
			out[ok+"/"+proto] += m.GetCounter().GetValue()
		}
	}
	return out
}

var _ = io.EOF
var _ net.Conn
