//go:build verif

package bubble

import (
	"testing/synctest"

	"verif/ref/h2wire"
)

// H2Session is a flow-control-aware HTTP/2 client on top of Client: it tracks the
// send windows the server granted and assembles responses.
type H2Session struct {
	C        *Client
	Col      *H2Collector
	connWin  int64
	initWin  int64
	strWin   map[uint32]int64
	maxFrame int
}

// NewH2Session sends the preface with SETTINGS that give the server unlimited room to send
// (so that responses never stall), and processes the server's first frames.
func NewH2Session(c *Client) *H2Session { return NewH2SessionWith(c) }

// NewH2SessionWith additionally advertises the given settings (e.g. SETTINGS_HEADER_TABLE_SIZE = 0; the caller then
// must give the client a decoder of that size: c.Dec = h2wire.NewDecoderSize(0)).
func NewH2SessionWith(c *Client, extra ...h2wire.Setting) *H2Session {
	s := &H2Session{C: c, Col: NewH2Collector(), connWin: 65535, initWin: 65535, strWin: map[uint32]int64{}, maxFrame: 16384}
	ss := []h2wire.Setting{{ID: 4, Val: 1<<31 - 1}}
	for _, x := range extra { // a SETTINGS frame must not carry the same identifier twice
		if x.ID == 4 {
			ss[0] = x
		} else {
			ss = append(ss, x)
		}
	}
	c.StartH2(ss...)
	c.Write(h2wire.WindowUpdate(0, 1<<31-1-65535))
	synctest.Wait()
	s.Pump()
	c.Write(h2wire.SettingsAck())
	return s
}

// Pump processes everything the server has sent so far.
func (s *H2Session) Pump() {
	fs := s.C.TakeFrames()
	for _, f := range fs {
		switch f.Type {
		case h2wire.TSettings:
			if f.Flags&h2wire.FAck == 0 {
				for _, st := range f.SettingsList() {
					switch st.ID {
					case 4:
						d := int64(st.Val) - s.initWin
						s.initWin = int64(st.Val)
						for id := range s.strWin {
							s.strWin[id] += d
						}
					case 5:
						s.maxFrame = int(st.Val)
					}
				}
			}
		case h2wire.TWindowUpdate:
			if f.Stream == 0 {
				s.connWin += int64(f.WindowIncrement())
			} else {
				if _, ok := s.strWin[f.Stream]; !ok {
					s.strWin[f.Stream] = s.initWin
				}
				s.strWin[f.Stream] += int64(f.WindowIncrement())
			}
		}
	}
	s.Col.Add(s.C.Dec, fs)
}

// Headers sends a HEADERS frame for a new request.
func (s *H2Session) Headers(stream uint32, fields []h2wire.HF, endStream bool) {
	s.strWin[stream] = s.initWin
	s.C.Write(h2wire.Headers(stream, s.C.Enc.Block(fields...), endStream, true, nil, -1))
}

// Data sends body in DATA frames of at most frameSize bytes (0: the maximum frame size) with the given
// padding (-1 none), never exceeding the windows the server granted; it waits for quiescence and pumps
// WINDOW_UPDATEs whenever it has to. end: END_STREAM on the last DATA frame. Returns false if it got stuck.
func (s *H2Session) Data(stream uint32, body []byte, frameSize, pad int, end bool) bool {
	if frameSize <= 0 || frameSize > s.maxFrame {
		frameSize = s.maxFrame
	}
	if len(body) == 0 {
		if end {
			s.C.Write(h2wire.Data(stream, nil, true, -1))
		}
		return true
	}
	stuck := 0
	for len(body) > 0 {
		overhead := 0
		if pad >= 0 {
			overhead = 1 + pad
		}
		n := frameSize - overhead
		if n <= 0 {
			n = 1
		}
		if n > len(body) {
			n = len(body)
		}
		avail := s.connWin
		if w := s.strWin[stream]; w < avail {
			avail = w
		}
		if int64(n+overhead) > avail {
			n = int(avail) - overhead
		}
		if n <= 0 {
			synctest.Wait()
			s.Pump()
			stuck++
			if stuck > 3 {
				return false
			}
			continue
		}
		stuck = 0
		last := n == len(body)
		s.C.Write(h2wire.Data(stream, body[:n], end && last, pad))
		s.connWin -= int64(n + overhead)
		s.strWin[stream] -= int64(n + overhead)
		body = body[n:]
	}
	return true
}
