// Package racepass runs a free-running (no bubble, no gates, real goroutines)
// workload of a check under the Go race detector. The cooperative explorer
// cannot see memory-model races (its hand-offs are happens-before edges), so
// checks whose property forbids cross-connection / cross-stream sharing add
// this detector pass. It is a detector, not an enumeration: the evidence
// reports it under its own keys.
package racepass

import (
	"os"
	"os/exec"
	"path/filepath"
	"strings"
	"testing"

	"verif/ev"
)

// IsChild reports whether this process is the workload child.
func IsChild() bool { return os.Getenv("VERIF_RACE_CHILD") != "" }

// Parent re-executes the current test binary (built with -race by the driver) running childTest, collects
// the race detector's reports and turns every report whose stacks mention one of the match strings into a violation.
func Parent(t *testing.T, rep *ev.Report, childTest string, match []string, what string) {
	dir := os.Getenv("VERIF_WORK")
	if dir == "" {
		dir = t.TempDir()
	}
	logp := filepath.Join(dir, "racelog-"+childTest)
	cmd := exec.Command(os.Args[0], "-test.run", "^"+childTest+"$", "-test.timeout", "300s")
	cmd.Env = append(os.Environ(), "GORACE=log_path="+logp+" halt_on_error=0 exitcode=0 history_size=3", "VERIF_OUT=", "VERIF_RACE_CHILD=1")
	outb, err := cmd.CombinedOutput()
	files, _ := filepath.Glob(logp + ".*")
	if err != nil && len(files) == 0 {
		rep.HarnessError("race workload failed: %v: %s", err, tail(string(outb), 800))
		return
	}
	n := 0
	for _, f := range files {
		b, _ := os.ReadFile(f)
		for _, blk := range strings.Split(string(b), "==================") {
			if !strings.Contains(blk, "DATA RACE") {
				continue
			}
			hit := ""
			for _, m := range match {
				if strings.Contains(blk, m) {
					hit = m
					break
				}
			}
			if hit == "" {
				continue
			}
			n++
			if n == 1 {
				rep.Violate(map[string]any{"kind": "data-race", "where": hit}, map[string]any{"report": tail(blk, 3000)},
					"race detector: %s: %s", what, firstLines(blk, 14))
			}
		}
	}
	rep.Add("race_reports", int64(n))
	rep.Add("race_pass_runs", 1)
}

func tail(s string, n int) string {
	if len(s) > n {
		return s[len(s)-n:]
	}
	return s
}

func firstLines(s string, n int) string {
	ls := strings.Split(strings.TrimSpace(s), "\n")
	if len(ls) > n {
		ls = ls[:n]
	}
	return strings.Join(ls, " | ")
}
