// Package mc is a stateless, deviation-bounded explorer of choice sequences.
//
// A scenario is a function that runs ONE execution of the system under test
// and asks the Chooser at every point where the environment or the scheduler
// has more than one option. Alternative 0 is always the default (cost 0 unless
// stated); every other alternative carries a deviation cost. Explore enumerates
// every choice sequence whose total cost stays within the bound.
package mc

import (
	"fmt"
	"hash/fnv"
	"os"
	"sort"
	"strconv"
	"strings"
	"time"
)

// HarnessError is raised (by panic) when the harness itself misbehaves:
// replay divergence, out-of-range choice. It is never a property violation.
type HarnessError struct{ Msg string }

func (e HarnessError) Error() string { return "harness error: " + e.Msg }

type point struct {
	n     int
	costs []int
	label string
}

// Chooser hands out choices for one execution.
type Chooser struct {
	ex      *Explorer
	prefix  []int
	choices []int
	points  []point
	used    int // cost used so far
	pruned  bool
	labels  []string
}

// Choose returns the index of the alternative to take at this point.
// labels describes the alternatives (for replay files), costs their deviation
// cost; costs may be nil (alternative 0 costs 0, every other costs 1).
func (c *Chooser) Choose(labels []string, costs []int) int {
	n := len(labels)
	if n == 0 {
		panic(HarnessError{"Choose with no alternatives"})
	}
	if costs == nil {
		costs = make([]int, n)
		for i := 1; i < n; i++ {
			costs[i] = 1
		}
	}
	i := len(c.choices)
	ch := 0
	if i < len(c.prefix) {
		ch = c.prefix[i]
		if ch >= n {
			panic(HarnessError{fmt.Sprintf("replay divergence at point %d: choice %d of %d (%v) after %v", i, ch, n, labels, c.labels)})
		}
	}
	c.points = append(c.points, point{n: n, costs: append([]int(nil), costs...), label: strings.Join(labels, "|")})
	c.choices = append(c.choices, ch)
	c.used += costs[ch]
	c.labels = append(c.labels, labels[ch])
	return ch
}

// Seen reports whether the global state identified by key has already been
// expanded with at least the remaining deviation budget; if so the scenario
// must stop this execution (its continuation is covered). Only call it with a
// key for which equal keys imply equal futures.
func (c *Chooser) Seen(key string) bool {
	if c.ex == nil || c.ex.visited == nil {
		return false
	}
	rem := c.ex.Bound - c.used
	if len(c.choices) < len(c.prefix) {
		return false // still replaying
	}
	if r, ok := c.ex.visited[key]; ok && r >= rem {
		c.pruned = true
		c.ex.Pruned++
		return true
	}
	c.ex.visited[key] = rem
	c.ex.States++
	return false
}

// Prefix returns the choice prefix this execution replays (then defaults).
func (c *Chooser) Prefix() []int { return append([]int(nil), c.prefix...) }

// Trace returns the labels of the choices taken so far.
func (c *Chooser) Trace() []string { return append([]string(nil), c.labels...) }

// Choices returns the raw choice list taken so far.
func (c *Chooser) Choices() []int { return append([]int(nil), c.choices...) }

// Outcome is what one execution reports.
type Outcome struct {
	Obs        string   // canonical observation (must be a function of the choice sequence)
	Violations []string // human-readable violation descriptions (empty = property held)
	Sigs       []string // one signature per violation (for known-finding matching)
}

// Found is a violation with the execution that exposed it.
type Found struct {
	What    string
	Sig     string
	Choices []int
	Trace   []string
	Obs     string
}

type Explorer struct {
	Bound      int
	Shard, Of  int           // this process handles top-level subtrees k with k%Of==Shard
	Prune      bool          // enable Seen()
	Deadline   time.Time     // zero = none; when passed, exploration stops with Capped=true
	RecheckN   int           // re-run every Nth execution and compare observations (0 = 50)
	MaxFound   int           // stop after this many distinct violations (0 = 20)
	visited    map[string]int
	Schedules  int
	Points     int
	States     int
	Pruned     int
	Rechecked  int
	Capped     bool
	Outcomes   map[string]int
	Found      []Found
	foundSigs  map[string]int
	Diverged   []string
	SampleRuns [][]string
	MaxDepth   int
}

type work struct {
	prefix []int
}

// Explore runs the scenario for every choice sequence within the bound.
func (e *Explorer) Explore(run func(c *Chooser) Outcome) {
	if e.Of == 0 {
		e.Of = 1
	}
	if e.RecheckN == 0 {
		e.RecheckN = 50
	}
	if e.MaxFound == 0 {
		e.MaxFound = 20
	}
	if e.Prune {
		e.visited = map[string]int{}
	}
	e.Outcomes = map[string]int{}
	e.foundSigs = map[string]int{}
	stack := []work{{prefix: nil}}
	top := 0
	for len(stack) > 0 {
		if !e.Deadline.IsZero() && time.Now().After(e.Deadline) {
			e.Capped = true
			return
		}
		w := stack[len(stack)-1]
		stack = stack[:len(stack)-1]
		c := &Chooser{ex: e, prefix: w.prefix}
		out := run(c)
		isRoot := len(w.prefix) == 0
		if !(isRoot && e.Shard != 0) {
			e.account(c, out)
			if !c.pruned && e.Schedules%e.RecheckN == 1 {
				c2 := &Chooser{prefix: c.choices}
				saved := e.visited
				e.visited = nil
				out2 := run(c2)
				e.visited = saved
				e.Rechecked++
				if out2.Obs != out.Obs || len(c2.choices) != len(c.choices) {
					e.Diverged = append(e.Diverged, fmt.Sprintf("choices %v: %q vs %q; schedules %v vs %v", c.choices, out.Obs, out2.Obs, c.Trace(), c2.Trace()))
				}
			}
		}
		if len(e.Found) >= e.MaxFound {
			e.Capped = true
			return
		}
		// children, pushed in reverse so that the lowest deviation is explored first
		var kids []work
		used := 0
		for i := 0; i < len(c.points); i++ {
			p := c.points[i]
			if i >= len(w.prefix) {
				for alt := 1; alt < p.n; alt++ {
					if used+p.costs[alt] > e.Bound {
						continue
					}
					pre := make([]int, i+1)
					copy(pre, c.choices[:i])
					pre[i] = alt
					kids = append(kids, work{prefix: pre})
				}
			}
			used += p.costs[c.choices[i]]
		}
		if isRoot && e.Of > 1 {
			var mine []work
			for _, k := range kids {
				if top%e.Of == e.Shard {
					mine = append(mine, k)
				}
				top++
			}
			kids = mine
		}
		for i := len(kids) - 1; i >= 0; i-- {
			stack = append(stack, kids[i])
		}
	}
}

func (e *Explorer) account(c *Chooser, out Outcome) {
	e.Schedules++
	e.Points += len(c.points)
	if len(c.points) > e.MaxDepth {
		e.MaxDepth = len(c.points)
	}
	if !c.pruned {
		e.Outcomes[out.Obs]++
	}
	if len(e.SampleRuns) < 3 || (len(e.SampleRuns) < 6 && c.used == e.Bound) {
		e.SampleRuns = append(e.SampleRuns, c.Trace())
	}
	for i, v := range out.Violations {
		sig := v
		if i < len(out.Sigs) {
			sig = out.Sigs[i]
		}
		// a few instances per signature: the first one found may depend on something the explorer does not own (it
		// then fails its confirmation runs) while a later one with the same signature is reproducible
		if e.foundSigs[sig] >= 3 {
			continue
		}
		e.foundSigs[sig]++
		e.Found = append(e.Found, Found{What: v, Sig: sig, Choices: c.Choices(), Trace: c.Trace(), Obs: out.Obs})
	}
}

// Replay runs one execution with the given choices.
func Replay(choices []int, run func(c *Chooser) Outcome) (Outcome, []string) {
	c := &Chooser{prefix: choices}
	out := run(c)
	return out, c.Trace()
}

// OutcomeKeys returns the distinct observations sorted.
func (e *Explorer) OutcomeKeys() []string {
	var ks []string
	for k := range e.Outcomes {
		ks = append(ks, k)
	}
	sort.Strings(ks)
	return ks
}

// Hash64 is a small helper for canonical keys.
func Hash64(s string) string {
	h := fnv.New64a()
	h.Write([]byte(s))
	return strconv.FormatUint(h.Sum64(), 16)
}

// ShardFromEnv reads VERIF_SHARD=i/n.
func ShardFromEnv() (int, int) {
	s := os.Getenv("VERIF_SHARD")
	if s == "" {
		return 0, 1
	}
	a, b, ok := strings.Cut(s, "/")
	if !ok {
		return 0, 1
	}
	i, _ := strconv.Atoi(a)
	n, _ := strconv.Atoi(b)
	if n <= 0 {
		return 0, 1
	}
	return i, n
}
