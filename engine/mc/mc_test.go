package mc

import "testing"

// two threads, each does 2 steps; count interleavings with preemption bound.
func TestExploreCounts(t *testing.T) {
	run := func(c *Chooser) Outcome {
		pc := [2]int{}
		cur := 0
		obs := ""
		for pc[0] < 2 || pc[1] < 2 {
			var en []int
			if pc[cur] < 2 {
				en = append(en, cur)
			}
			if pc[1-cur] < 2 {
				en = append(en, 1-cur)
			}
			labels := make([]string, len(en))
			costs := make([]int, len(en))
			for i, th := range en {
				labels[i] = string(rune('A' + th))
				if i > 0 && en[0] == cur && pc[cur] < 2 {
					costs[i] = 1
				}
			}
			th := en[c.Choose(labels, costs)]
			pc[th]++
			cur = th
			obs += string(rune('A' + th))
		}
		return Outcome{Obs: obs}
	}
	for bound, want := range map[int]int{0: 1, 1: 3, 2: 5, 3: 6, 9: 6} {
		e := &Explorer{Bound: bound}
		e.Explore(run)
		if len(e.Outcomes) != want {
			t.Errorf("bound %d: %d outcomes %v, want %d", bound, len(e.Outcomes), e.OutcomeKeys(), want)
		}
		// sharded union must equal the unsharded result
		u := map[string]bool{}
		for s := 0; s < 3; s++ {
			es := &Explorer{Bound: bound, Shard: s, Of: 3}
			es.Explore(run)
			for k := range es.Outcomes {
				u[k] = true
			}
		}
		if len(u) != want {
			t.Errorf("bound %d sharded: %d outcomes, want %d", bound, len(u), want)
		}
	}
}
