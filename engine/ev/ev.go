// Package ev is the result protocol between a check binary (one shard) and
// the driver /verif/bin/check, which merges shards, consults
// KNOWN_FINDINGS.json, prints VIOLATION / KNOWN-FINDING lines and writes the
// evidence file.
package ev

import (
	"encoding/json"
	"fmt"
	"os"
	"sort"
	"strconv"
	"sync"
	"time"
)

type Violation struct {
	Sig    map[string]any `json:"sig"`    // structural signature, matched against KNOWN_FINDINGS.json
	What   string         `json:"what"`   // one line for humans
	Replay any            `json:"replay"` // everything needed to reproduce (input / choice list / history)
}

type Report struct {
	mu            sync.Mutex
	Property      string              `json:"property"`
	Tier          string              `json:"tier"`
	Level         string              `json:"level"`
	Sum           map[string]int64    `json:"sum"`      // counters, added over shards
	Max           map[string]int64    `json:"max"`      // maxima over shards
	Distinct      map[string][]string `json:"distinct"` // named sets of hashes, unioned over shards; coverage[name]=|set|
	Info          map[string]any      `json:"info"`     // copied to coverage as is (first shard wins)
	Samples       []any               `json:"samples"`
	Violations    []Violation         `json:"violations"`
	HarnessErrors []string            `json:"harness_errors"`
	Assumptions   []string            `json:"assumptions"`
	Exhaustive    bool                `json:"exhaustive"`
	WallS         float64             `json:"wall_s"`
	start         time.Time
	dsets         map[string]map[string]struct{}
}

func New(property, level string) *Report {
	r := &Report{Property: property, Level: level, Tier: Tier(), Sum: map[string]int64{}, Max: map[string]int64{},
		Distinct: map[string][]string{}, Info: map[string]any{}, Exhaustive: true, start: time.Now(),
		dsets: map[string]map[string]struct{}{}}
	return r
}

func Tier() string {
	if t := os.Getenv("VERIF_TIER"); t == "thorough" {
		return "thorough"
	}
	return "quick"
}

func Thorough() bool { return Tier() == "thorough" }

func Seed() int64 {
	n, _ := strconv.ParseInt(os.Getenv("VERIF_SEED"), 10, 64)
	return n
}

func (r *Report) Add(name string, n int64) {
	r.mu.Lock()
	r.Sum[name] += n
	r.mu.Unlock()
}

func (r *Report) SetMax(name string, n int64) {
	r.mu.Lock()
	if n > r.Max[name] {
		r.Max[name] = n
	}
	r.mu.Unlock()
}

// Note adds key to the named distinct-set (pass a short hash or key).
func (r *Report) Note(name, key string) {
	r.mu.Lock()
	s := r.dsets[name]
	if s == nil {
		s = map[string]struct{}{}
		r.dsets[name] = s
	}
	s[key] = struct{}{}
	r.mu.Unlock()
}

func (r *Report) DistinctCount(name string) int {
	r.mu.Lock()
	defer r.mu.Unlock()
	return len(r.dsets[name])
}

func (r *Report) Sample(s any) {
	r.mu.Lock()
	if len(r.Samples) < 6 {
		r.Samples = append(r.Samples, s)
	}
	r.mu.Unlock()
}

func (r *Report) Violate(sig map[string]any, replay any, format string, a ...any) {
	r.mu.Lock()
	defer r.mu.Unlock()
	if len(r.Violations) >= 50 {
		return
	}
	r.Violations = append(r.Violations, Violation{Sig: sig, What: fmt.Sprintf(format, a...), Replay: replay})
}

func (r *Report) NumViolations() int {
	r.mu.Lock()
	defer r.mu.Unlock()
	return len(r.Violations)
}

func (r *Report) HarnessError(format string, a ...any) {
	r.mu.Lock()
	r.HarnessErrors = append(r.HarnessErrors, fmt.Sprintf(format, a...))
	r.Exhaustive = false
	r.mu.Unlock()
}

func (r *Report) NotExhaustive(why string) {
	r.mu.Lock()
	r.Exhaustive = false
	r.Info["cap"] = why
	r.mu.Unlock()
}

func (r *Report) Assume(s ...string) {
	r.mu.Lock()
	r.Assumptions = append(r.Assumptions, s...)
	r.mu.Unlock()
}

// Write stores the report where the driver expects it ($VERIF_OUT) or prints it.
func (r *Report) Write() error {
	r.mu.Lock()
	defer r.mu.Unlock()
	r.WallS = time.Since(r.start).Seconds()
	for name, s := range r.dsets {
		ks := make([]string, 0, len(s))
		for k := range s {
			ks = append(ks, k)
		}
		sort.Strings(ks)
		r.Distinct[name] = ks
	}
	b, err := json.Marshal(r)
	if err != nil {
		return err
	}
	if p := os.Getenv("VERIF_OUT"); p != "" {
		tmp := p + ".tmp"
		if err := os.WriteFile(tmp, b, 0o644); err != nil {
			return err
		}
		return os.Rename(tmp, p)
	}
	os.Stdout.Write(append(b, '\n'))
	return nil
}

// Journal records "case N about to run" so that the driver can attribute a
// worker crash (escaped panic, fatal error) to a case.
func Journal(format string, a ...any) {
	p := os.Getenv("VERIF_JOURNAL")
	if p == "" {
		return
	}
	f, err := os.OpenFile(p, os.O_WRONLY|os.O_CREATE|os.O_TRUNC, 0o644)
	if err != nil {
		return
	}
	fmt.Fprintf(f, format, a...)
	f.Close()
}

// ReplayRequest returns the "replay" object of the violation file named by $VERIF_REPLAY (bin/check --replay), if any.
func ReplayRequest() (map[string]any, bool) {
	p := os.Getenv("VERIF_REPLAY")
	if p == "" {
		return nil, false
	}
	b, err := os.ReadFile(p)
	if err != nil {
		return nil, false
	}
	var doc struct {
		Replay map[string]any `json:"replay"`
	}
	if json.Unmarshal(b, &doc) != nil || doc.Replay == nil {
		return nil, false
	}
	return doc.Replay, true
}

// Ints converts a JSON array of numbers to []int.
func Ints(v any) []int {
	a, _ := v.([]any)
	out := make([]int, 0, len(a))
	for _, x := range a {
		if f, ok := x.(float64); ok {
			out = append(out, int(f))
		}
	}
	return out
}

// Exchange is an all-to-all barrier between the shards of one check run: every shard contributes payload under the
// given name and gets back the payloads of all shards (index = shard). It uses files in $VERIF_WORK (the driver starts
// all shards together). Used by level-synchronous searches that deduplicate states globally.
func Exchange(name string, shard, of int, payload []byte) ([][]byte, error) {
	dir := os.Getenv("VERIF_WORK")
	if dir == "" || of <= 1 {
		return [][]byte{payload}, nil
	}
	pass := os.Getenv("VERIF_PASS")
	mine := fmt.Sprintf("%s/xchg-%s-%s-%d.bin", dir, pass, name, shard)
	if err := os.WriteFile(mine+".tmp", payload, 0o644); err != nil {
		return nil, err
	}
	if err := os.Rename(mine+".tmp", mine); err != nil {
		return nil, err
	}
	out := make([][]byte, of)
	deadline := time.Now().Add(30 * time.Minute)
	for i := 0; i < of; i++ {
		p := fmt.Sprintf("%s/xchg-%s-%s-%d.bin", dir, pass, name, i)
		for {
			b, err := os.ReadFile(p)
			if err == nil {
				out[i] = b
				break
			}
			if time.Now().After(deadline) {
				return nil, fmt.Errorf("exchange %s: shard %d never delivered", name, i)
			}
			time.Sleep(20 * time.Millisecond)
		}
	}
	return out, nil
}
